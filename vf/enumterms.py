"""Bounded-exhaustive term enumeration: every application of one operator to leaves (depth 1) and every
combination of two operators (an operator applied to one depth-1 term and leaves, in every argument position).
Blueprints only; no pysmt import."""
import itertools
from fractions import Fraction

from vf.bp import BOOL, INT, REAL, BV, sym, const, app

BV1, BV2 = BV(1), BV(2)

LEAVES = {
    BOOL: [sym("p", BOOL), sym("q", BOOL), const(BOOL, True), const(BOOL, False)],
    INT: [sym("i", INT), sym("j", INT), const(INT, 0), const(INT, 1), const(INT, -1), const(INT, 2)],
    REAL: [sym("r", REAL), sym("s", REAL), const(REAL, Fraction(0)), const(REAL, Fraction(1)), const(REAL, Fraction(1, 2)),
           const(REAL, Fraction(-1)), const(REAL, Fraction(-1, 2))],
    BV2: [sym("a", BV2), sym("b", BV2), const(BV2, 0), const(BV2, 1), const(BV2, 3)],
    BV1: [sym("c", BV1), const(BV1, 0), const(BV1, 1)],
}
# the leaves used beside a depth-1 argument (kept small: the number of depth-2 terms is linear in it)
SIDE = {
    BOOL: [sym("p", BOOL), const(BOOL, True), const(BOOL, False)],
    INT: [sym("i", INT), const(INT, 0), const(INT, 1), const(INT, -1)],
    REAL: [sym("r", REAL), const(REAL, Fraction(0)), const(REAL, Fraction(1)), const(REAL, Fraction(-1))],
    BV2: [sym("a", BV2), const(BV2, 0), const(BV2, 3)],
    BV1: [sym("c", BV1), const(BV1, 1)],
}

BVBIN = ["BV_AND", "BV_OR", "BV_XOR", "BV_ADD", "BV_SUB", "BV_MUL", "BV_UDIV", "BV_UREM", "BV_SDIV", "BV_SREM",
         "BV_LSHL", "BV_LSHR", "BV_ASHR"]
BVREL = ["BV_ULT", "BV_ULE", "BV_SLT", "BV_SLE"]


def signatures():
    """(op, params, argument types, result type)"""
    S = []
    S.append(("NOT", (), (BOOL,), BOOL))
    for o in ("AND", "OR", "IFF", "IMPLIES"):
        S.append((o, (), (BOOL, BOOL), BOOL))
    for T in (BOOL, INT, REAL, BV2, BV1):
        S.append(("ITE", (), (BOOL, T, T), T))
    for T in (INT, REAL, BV2, BV1):
        S.append(("EQUALS", (), (T, T), BOOL))
    for T in (INT, REAL):
        for o in ("LE", "LT"):
            S.append((o, (), (T, T), BOOL))
        for o in ("PLUS", "MINUS", "TIMES", "DIV"):
            S.append((o, (), (T, T), T))
    S.append(("TOREAL", (), (INT,), REAL))
    S.append(("BV_TONATURAL", (), (BV2,), INT))
    for T in (BV2, BV1):
        for o in BVBIN:
            S.append((o, (), (T, T), T))
        for o in BVREL:
            S.append((o, (), (T, T), BOOL))
        S.append(("BV_COMP", (), (T, T), BV1))
        for o in ("BV_NOT", "BV_NEG"):
            S.append((o, (), (T,), T))
        for k in range(T[1] + 1):
            S.append(("BV_ROL", (k,), (T,), T))
            S.append(("BV_ROR", (k,), (T,), T))
        S.append(("BV_ZEXT", (0,), (T,), T))
        S.append(("BV_SEXT", (0,), (T,), T))
    S.append(("BV_CONCAT", (), (BV1, BV1), BV2))
    S.append(("BV_ZEXT", (1,), (BV1,), BV2))
    S.append(("BV_SEXT", (1,), (BV1,), BV2))
    S.append(("BV_EXTRACT", (0, 0), (BV2,), BV1))
    S.append(("BV_EXTRACT", (1, 1), (BV2,), BV1))
    S.append(("BV_EXTRACT", (0, 1), (BV2,), BV2))
    S.append(("BV_EXTRACT", (0, 0), (BV1,), BV1))
    return S


def depth1(types=None):
    """type -> list of depth-1 terms"""
    out = {}
    for (o, ps, ats, rt) in signatures():
        if types is not None and (rt not in types and not any(a in types for a in ats)):
            continue
        for args in itertools.product(*[LEAVES[a] for a in ats]):
            out.setdefault(rt, []).append(app(o, *args, params=ps))
    return out


def depth2(types=None):
    """Yields every operator applied to one depth-1 argument (any position) and side leaves elsewhere."""
    d1 = depth1()
    for (o, ps, ats, rt) in signatures():
        if types is not None and rt not in types and not any(a in types for a in ats):
            continue
        for pos, at in enumerate(ats):
            others = [SIDE[a] for i, a in enumerate(ats) if i != pos]
            for inner in d1.get(at, ()):
                for rest in itertools.product(*others):
                    args = list(rest)
                    args.insert(pos, inner)
                    yield app(o, *args, params=ps)


# ---------------------------------------------------------------- Boolean structure with quantifiers

def bool_quant_terms(depth3_stride=None):
    """Every Boolean formula built from at most two connectives / quantifiers over the leaves p, q, (i < j), True
    - and, if depth3_stride is given, every depth_stride-th formula with three - where at each level one argument is
    complex and the others are leaves (every argument position).  Quantifiers bind p or q (so a free occurrence of
    the same name outside the binder clashes with it)."""
    P, Q = sym("p", BOOL), sym("q", BOOL)
    atom = app("LT", sym("i", INT), sym("j", INT))
    leaves = [P, Q, atom, const(BOOL, True)]
    side = [P, Q, atom]

    def layer(inner_terms, sides):
        for t in inner_terms:
            yield app("NOT", t)
            for v in ("p", "q"):
                yield ("FORALL", ((v, BOOL),), (t,))
                yield ("EXISTS", ((v, BOOL),), (t,))
            for o in ("AND", "OR", "IMPLIES", "IFF"):
                for s in sides:
                    yield app(o, t, s)
                    yield app(o, s, t)
            for a in sides:
                for b in sides[:2]:
                    yield app("ITE", t, a, b)
                    yield app("ITE", a, t, b)
                    yield app("ITE", a, b, t)
    d1 = list(layer(leaves, leaves))
    # depth 1 also with both arguments equal / complex-free duplicates removed
    seen = set()
    out1 = []
    for t in d1:
        if t not in seen:
            seen.add(t)
            out1.append(t)
    for t in out1:
        yield t
    d2 = []
    for t in layer(out1, side):
        d2.append(t)
        yield t
    if depth3_stride:
        for k, t in enumerate(layer(d2, side[:2])):
            if k % depth3_stride == 0:
                yield t
