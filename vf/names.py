"""Hostile symbol names for the SMT-LIB printing / parsing checks, and blueprint renaming."""
from vf.smtref import RESERVED, THEORY_SYMBOLS
import re

FIXED = ["x y", "a b c", "(", ")", "()", "x)", ";", "a;b", "#", "#b01x", ":kw", "'", "a'b", "\"", "a\"b", "é", "λx", "∀",
         ".def_0", ".def_1", ".def_2", ".def_3", "FV0", "FV1", "__x0", "ack0", "x!1", "let1", "Int1", "a.b", "x@0", "~",
         "-", "->", "<=>", "a-b", "$", "%%", "&", "*x", "_x", "x_", "?", "/x", "Real_", "bool", "INT", "1a", " ", "  x",
         "x  ", "[i]", "{}", ",", "a,b", "`", "x`y", "a:b", "=x", "@", "^", "~!@$%^&*_-+=<>.?/", "x" * 40, "z3name!0",
         # operators pySMT reads although SMT-LIB does not define them: ordinary names for a script
         "pow", "int.to.str", "str.to.int"]
NON_STANDARD_OPERATORS = ["pow", "int.to.str", "str.to.int"]
ALPHA = "abxyz019 _-.!@$%^&*+=<>?/~()[]{};:#'\",`éλ"


def is_literal_spelling(n):
    return bool(re.fullmatch(r"[0-9]+(\.[0-9]+)?|#b[01]+|#x[0-9a-fA-F]+", n)) or (len(n) >= 2 and n[0] == '"' and n[-1] == '"')


def admissible(n, allow_bar_backslash=False):
    # the properties quantify over "any printable string except SMT-LIB reserved words, predefined theory symbols and
    # literal spellings"
    if not n or n in RESERVED or n in THEORY_SYMBOLS or is_literal_spelling(n):
        return False
    if n in ("true", "false", "Bool", "Int", "Real", "String", "Array", "BitVec", "const", "_", "!", "as", "par"):
        return False
    if not allow_bar_backslash and ("|" in n or "\\" in n):
        return False
    return all(c.isprintable() for c in n)


def draw_name(rnd, allow_bar_backslash=False):
    for _ in range(20):
        if rnd.random() < 0.6:
            n = rnd.choice(FIXED)
        else:
            n = "".join(rnd.choice(ALPHA + ("|\\" if allow_bar_backslash else "")) for _ in range(rnd.randint(1, 6)))
        if admissible(n, allow_bar_backslash):
            return n
    return "v%d" % rnd.randrange(1000)


def rename(bp, mapping):
    """Rename symbols (free, bound, function names) according to mapping old-name -> new-name."""
    memo = {}

    def go(t):
        k = id(t)
        if k in memo and memo[k][0] is t:
            return memo[k][1]
        op, params, ch = t
        ch2 = tuple(go(c) for c in ch)
        if op == "SYMBOL" or op == "FUNCTION":
            params = (mapping.get(params[0], params[0]), params[1])
        elif op in ("FORALL", "EXISTS"):
            params = tuple((mapping.get(n, n), ty) for (n, ty) in params)
        r = (op, params, ch2)
        memo[k] = (t, r)
        return r
    return go(bp)


def hostile_mapping(rnd, names, pct=60, allow_bar_backslash=False, functions=(), with_pow=False):
    """Injective renaming of `names`; each name is replaced with probability pct%.  `functions`: the names that are
    applied to arguments (they sometimes get the name of an operator that only pySMT knows).  with_pow: the formulas
    use the power operator, which pySMT writes as `pow` (open finding of C07): no symbol is named pow then (the clash is the same finding)."""
    used = set(names)
    m = {}
    if rnd.randrange(100) < 15:
        # names that look like the printers' own let-names / fresh names, consecutively numbered
        base = rnd.choice([".def_%d", ".def_%d", "FV%d", "__x%d", "ack%d"])
        start = rnd.choice([0, 0, 1, 2])
        for i, n in enumerate(sorted(names)[:rnd.randint(2, 4)]):
            h = base % (start + i)
            if h not in used:
                used.add(h)
                m[n] = h
    for n in sorted(functions):
        # a declared function named like an operator only pySMT knows
        if n not in m and rnd.randrange(100) < 12:
            h = rnd.choice(NON_STANDARD_OPERATORS)
            if h not in used and not (with_pow and h == "pow"):
                used.add(h)
                m[n] = h
    for n in sorted(names):
        if n in m:
            continue
        if rnd.randrange(100) < pct:
            for _ in range(10):
                h = draw_name(rnd, allow_bar_backslash)
                if h not in used and not (with_pow and h == "pow"):
                    used.add(h)
                    m[n] = h
                    break
    return m
