#!/venv/bin/python
"""A strict reference SMT-LIB solver process (stdin/stdout) on top of vf/smtref.py.  No pysmt import.

* rejects illegal streams with (error "..."): redeclaration, use before declaration (also after pop and after
  reset-assertions, which remove declarations), unbalanced push/pop, ill-sorted terms;
* check-sat by brute-force enumeration over finite domains (Bool, BV<=4, declared sorts with --card elements,
  Int over a small window);
* logs every command, reply and model as JSON lines (--log FILE);
* switches for the portfolio check: --delay MS (before answering check-sat) and
  --mode ok|unknown|crash|exit|garbage|fail-on-assert|slow-start.
"""
import argparse
import itertools
import json
import os
import sys
import time

HERE = os.path.dirname(os.path.dirname(os.path.abspath(__file__)))
if HERE not in sys.path:
    sys.path.insert(0, HERE)

from vf import smtref                                   # noqa: E402
from vf.smtref import Atom, IllFormed                   # noqa: E402
from vf.refsem import Evaluator, reffv, reftype, Unconstrained, NoSemantics, FunV      # noqa: E402
from vf.bp import BOOL, INT, REAL, STRING, is_bv, is_sort, is_fun, is_arr       # noqa: E402


def unparse(sx):
    if isinstance(sx, list):
        return "(" + " ".join(unparse(x) for x in sx) + ")"
    if sx.kind == "qsym":
        return "|%s|" % sx.val
    if sx.kind == "str":
        return '"%s"' % sx.val.replace('"', '""')
    if sx.kind == "bin":
        return "#b" + sx.val
    if sx.kind == "hex":
        return "#x" + sx.val
    if sx.kind == "dec":
        from fractions import Fraction
        v = sx.val
        return "%d.%d" % (v.numerator // v.denominator, 0) if v.denominator == 1 else "(/ %d.0 %d.0)" % (v.numerator, v.denominator)
    return str(sx.val)


def value_text(ty, v):
    if ty == BOOL:
        return "true" if v else "false"
    if ty == INT:
        return str(v) if v >= 0 else "(- %d)" % (-v)
    if ty == REAL:
        from fractions import Fraction
        v = Fraction(v)
        s = "%d.0" % abs(v.numerator) if v.denominator == 1 else "(/ %d.0 %d.0)" % (abs(v.numerator), v.denominator)
        return s if v >= 0 else "(- %s)" % s
    if is_bv(ty):
        return "#b" + format(v, "0%db" % ty[1])
    if ty == STRING:
        return '"%s"' % v.replace('"', '""')
    if is_sort(ty):
        from vf.smtprint import sort_text
        return "(as @%s_%d %s)" % ("".join(c if c.isalnum() else "_" for c in ty[1]), v, sort_text(ty))
    raise ValueError(ty)


class CommandReader(object):
    """Reads one balanced top-level S-expression at a time from a character stream."""

    def __init__(self, stream):
        self.stream = stream

    def next_command(self):
        buf = []
        depth = 0
        started = False
        while True:
            c = self.stream.read(1)
            if c == "":
                return None if not started else "".join(buf)
            if not started and c in " \t\r\n":
                continue
            if c == ";":
                while c not in ("", "\n"):
                    c = self.stream.read(1)
                continue
            buf.append(c)
            started = True
            if c == '"':
                while True:
                    d = self.stream.read(1)
                    if d == "":
                        return "".join(buf)
                    buf.append(d)
                    if d == '"':
                        break
            elif c == "|":
                while True:
                    d = self.stream.read(1)
                    if d == "":
                        return "".join(buf)
                    buf.append(d)
                    if d == "|":
                        break
            elif c == "(":
                depth += 1
            elif c == ")":
                depth -= 1
                if depth <= 0:
                    return "".join(buf)


class RefSolver(object):
    INT_WINDOW = list(range(-2, 5))

    def __init__(self, args):
        self.args = args
        self.el = smtref.Elab(strict=False)
        self.script = smtref.Script()
        self.script.elab = self.el
        self.frames = [[]]              # asserted blueprints
        self.print_success = False
        self.model = None
        self.log = open(args.log, "a") if args.log else None
        self.cards = {}
        self.ncheck = 0

    def out(self, text, cmd=None, extra=None):
        # log first: whoever reads the reply must find the log entry
        if self.log:
            rec = {"cmd": cmd, "reply": text, "t": time.time()}
            if extra:
                rec.update(extra)
            self.log.write(json.dumps(rec, default=str) + "\n")
            self.log.flush()
        sys.stdout.write(text + "\n")
        sys.stdout.flush()

    def success(self, cmd):
        if self.print_success:
            self.out("success", cmd)
        elif self.log:
            self.log.write(json.dumps({"cmd": cmd, "reply": ""}) + "\n")
            self.log.flush()

    def domain(self, ty):
        if ty == BOOL:
            return [False, True]
        if is_bv(ty) and ty[1] <= 4:
            return list(range(1 << ty[1]))
        if is_sort(ty):
            return list(range(self.args.card))
        if ty == INT:
            return self.INT_WINDOW
        return None

    def live_symbols(self):
        out = {}
        for fr in self.el.frames:
            out.update(fr)
        return out

    def search(self):
        from vf.funsearch import find_model
        forms = [a for fr in self.frames for a in fr]
        cards = {s: self.args.card for s in self.el.sorts}
        try:
            verdict, I = find_model(forms, cards, self.domain)
        except (Unconstrained, NoSemantics):
            return "unknown", None
        if verdict == "sat":
            # complete the model on every live declared constant / function
            for n, t in self.live_symbols().items():
                if n in I:
                    continue
                if is_fun(t):
                    d = self.domain(t[1])
                    I[n] = FunV([d[0] if d else 0])
                else:
                    d = self.domain(t)
                    I[n] = d[0] if d else (0 if t in (INT, REAL) else "")
        return verdict, I

    def handle(self, text):
        mode = self.args.mode
        try:
            sxs = smtref.read_all(text)
        except IllFormed as e:
            self.out('(error "%s")' % str(e).replace('"', "'"), text)
            return True
        for sx in sxs:
            if not (isinstance(sx, list) and sx and isinstance(sx[0], Atom)):
                self.out('(error "command expected")', text)
                continue
            name = sx[0].val
            raw = unparse(sx)
            try:
                if name == "set-logic" and self.args.logics:
                    # a strict solver knows the logics it was built for (and no name outside SMT-LIB)
                    lg = sx[1].val if len(sx) == 2 and isinstance(sx[1], Atom) else None
                    if lg not in self.args.logics.split(","):
                        self.out('(error "unknown or unsupported logic %s")' % lg, raw, {"error_class": "logic"})
                        continue
                if name == "set-option":
                    if len(sx) == 3 and sx[1].val == ":print-success":
                        self.print_success = (sx[2].val == "true")
                    if len(sx) == 3 and sx[1].val == ":diagnostic-output-channel" and mode == "no-diagnostic":
                        self.out("unsupported", raw)
                        continue
                    self.success(raw)
                elif name == "exit":
                    self.success(raw)
                    return False
                elif name == "check-sat":
                    self.ncheck += 1
                    if self.args.delay:
                        time.sleep(self.args.delay / 1000.0)
                    if self.args.die_on and any(n == self.args.die_on for fr in self.frames for a in fr for (n, _) in reffv(a)):
                        os._exit(3)         # the process dies on queries that mention this symbol
                    if mode == "crash":
                        os._exit(3)
                    if mode == "exit":
                        sys.stdout.flush()
                        os._exit(0)
                    if mode == "garbage":
                        self.out("(what? )", raw)
                        continue
                    if mode == "unknown":
                        self.model = None
                        self.out("unknown", raw)
                        continue
                    verdict, model = self.search()
                    self.model = model
                    self.out(verdict, raw, {"model": None if model is None else
                                            {n: (v.to_json() if isinstance(v, FunV) else v) for n, v in model.items()}})
                elif name == "get-value":
                    if self.model is None:
                        self.out('(error "no model available")', raw)
                        continue
                    if len(sx) != 2 or not isinstance(sx[1], list) or not sx[1]:
                        raise IllFormed("syntax", "get-value")
                    parts = []
                    vals = {}
                    cards = {s: self.args.card for s in self.el.sorts}
                    for t in sx[1]:
                        b = self.el.term(t, smtref.Scope())
                        I = dict(self.model)
                        for (n, ty) in reffv(b):
                            if n not in I:
                                if is_fun(ty):
                                    d = self.domain(ty[1])
                                    I[n] = FunV([d[0] if d else 0])
                                else:
                                    d = self.domain(ty)
                                    I[n] = d[0] if d else 0
                        v = Evaluator(I, cards).eval(b)
                        # (--wrap: replies may span several lines, as z3 writes long values)
                        parts.append(("(%s\n   %s)" if self.args.wrap else "(%s %s)") % (unparse(t), value_text(reftype(b), v)))
                        vals[unparse(t)] = v
                    self.out("(%s)" % ("\n " if self.args.wrap else " ").join(parts), raw, {"values": vals})
                elif name == "assert" and mode == "fail-on-assert":
                    self.out('(error "assert is broken in this solver")', raw)
                else:
                    before = len(self.script.commands)
                    smtref.run_command(self.script, self.el, sx)
                    c = self.script.commands[-1]
                    if c[0] == "assert":
                        self.frames[-1].append(c[1])
                        self.model = None
                    elif c[0] == "push":
                        for _ in range(c[1]):
                            self.frames.append([])
                        self.model = None
                    elif c[0] == "pop":
                        for _ in range(c[1]):
                            self.frames.pop()
                        self.model = None
                    elif c[0] == "reset-assertions":
                        self.frames = [[]]
                        self.model = None
                    self.success(raw)
            except IllFormed as e:
                self.out('(error "%s")' % str(e).replace('"', "'"), raw, {"error_class": e.cls})
            except Exception as e:
                self.out('(error "internal: %s %s")' % (type(e).__name__, str(e).replace('"', "'")), raw)
        return True


def main():
    ap = argparse.ArgumentParser()
    ap.add_argument("--delay", type=int, default=0)
    ap.add_argument("--mode", default="ok")
    ap.add_argument("--log", default=None)
    ap.add_argument("--card", type=int, default=2)
    ap.add_argument("--start-delay", type=int, default=0)
    ap.add_argument("--wrap", action="store_true")
    ap.add_argument("--die-on", default=None)
    ap.add_argument("--logics", default=None)
    args = ap.parse_args()
    if args.start_delay:
        time.sleep(args.start_delay / 1000.0)
    if args.mode == "die-at-start":
        os._exit(4)
    rs = RefSolver(args)
    reader = CommandReader(sys.stdin)
    while True:
        text = reader.next_command()
        if text is None:
            break
        try:
            if not rs.handle(text):
                break
        except BrokenPipeError:
            break


if __name__ == "__main__":
    main()
