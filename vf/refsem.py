"""Reference semantics (SMT-LIB 2.6 reading) of blueprints.  No pysmt import.

eval(bp, interp, cards) -> value
reftype(bp)             -> type   or raises IllTyped
reffv(bp)               -> frozenset of (name, type) free symbols (function names count)

Values: bool | int | Fraction | int (BV, unsigned) | str | int (sort element)
        | ArrV | FunV (for function symbols)
"""
from fractions import Fraction
import zlib
import itertools

from vf.bp import (BOOL, INT, REAL, STRING, is_bv, is_arr, is_sort, is_fun,
                   to_json, from_json)

INF = float("inf")


class Unconstrained(Exception):
    """Int/Real division by zero was evaluated (value left free by SMT-LIB)."""


class NoSemantics(Exception):
    """Operator without a reference semantics here (POW, unbounded binder)."""


class IllTyped(Exception):
    pass


class ArrV(object):
    """Finite-support array value: default + items (dict key -> value)."""
    __slots__ = ("default", "items")

    def __init__(self, default, items=None):
        self.default = default
        self.items = dict(items or {})

    def get(self, k):
        return self.items.get(k, self.default)

    def store(self, k, v):
        it = dict(self.items)
        it[k] = v
        return ArrV(self.default, it)

    def __repr__(self):
        return "ArrV(%r, %r)" % (self.default, self.items)

    def to_json(self):
        return {"$arr": [to_json(self.default), [[to_json(k), to_json(v)] for k, v in self.items.items()]]}

    @staticmethod
    def from_json(j):
        d, it = j["$arr"]
        return ArrV(from_json(d), {from_json(k): from_json(v) for k, v in it})


class FunV(object):
    """Total function given by a list of result values, selected by a stable
    hash of the (canonical) argument tuple; optional explicit table."""
    __slots__ = ("values", "table")

    def __init__(self, values, table=None):
        self.values = list(values)
        self.table = dict(table or {})

    def __call__(self, cargs):
        if cargs in self.table:
            return self.table[cargs]
        h = zlib.crc32(repr(cargs).encode())
        return self.values[h % len(self.values)]

    def __repr__(self):
        return "FunV(%r, %r)" % (self.values, self.table)

    def to_json(self):
        return {"$fun": [to_json(self.values), [[to_json(k), to_json(v)] for k, v in self.table.items()]]}

    @staticmethod
    def from_json(j):
        v, t = j["$fun"]
        return FunV(from_json(v), {from_json(k): from_json(x) for k, x in t})


# ---------------------------------------------------------------- domains

def domain_size(ty, cards):
    if ty == BOOL:
        return 2
    if is_bv(ty):
        return 2 ** ty[1]
    if is_sort(ty):
        return cards.get(ty[1], 2)
    if is_arr(ty):
        i, e = domain_size(ty[1], cards), domain_size(ty[2], cards)
        if e == 1:
            return 1
        if i == INF or e == INF or i > 64:
            return INF
        return e ** i
    return INF


def domain_iter(ty, cards):
    if ty == BOOL:
        return [False, True]
    if is_bv(ty):
        if ty[1] > 6:
            raise NoSemantics("binder over BV%d" % ty[1])
        return range(2 ** ty[1])
    if is_sort(ty):
        return range(cards.get(ty[1], 2))
    raise NoSemantics("binder over unbounded sort %r" % (ty,))


def canon(v, ty, cards):
    """Hashable canonical key of a value of type ty."""
    if is_arr(ty):
        it, et = ty[1], ty[2]
        D = domain_size(it, cards)
        if D != INF and D <= 64:
            return ("arrfull",) + tuple(canon(v.get(k), et, cards) for k in domain_iter(it, cards))
        d = canon(v.default, et, cards)
        # (the keys of the stored items are canonical already: see Evaluator._arr_store)
        items = sorted(((k if isinstance(k, tuple) else canon(k, it, cards), canon(x, et, cards)) for k, x in v.items.items()),
                       key=repr)
        items = tuple((k, x) for k, x in items if x != d)
        assert len(items) < D
        return ("arr", d, items)
    if ty == REAL:
        return Fraction(v)
    return v


def val_eq(a, b, ty, cards):
    if is_arr(ty):
        return canon(a, ty, cards) == canon(b, ty, cards)
    return a == b


# ---------------------------------------------------------------- typing

_BV_BIN = {"BV_AND", "BV_OR", "BV_XOR", "BV_ADD", "BV_SUB", "BV_MUL", "BV_UDIV", "BV_UREM",
           "BV_LSHL", "BV_LSHR", "BV_ASHR", "BV_SDIV", "BV_SREM"}
_BV_UN = {"BV_NOT", "BV_NEG"}
_BV_REL = {"BV_ULT", "BV_ULE", "BV_SLT", "BV_SLE"}


def _ill(msg):
    raise IllTyped(msg)


def reftype(bp, _memo=None):
    if _memo is None:
        _memo = {}
    k = id(bp)
    if k in _memo and _memo[k][0] is bp:
        return _memo[k][1]
    t = _reftype(bp, _memo)
    _memo[k] = (bp, t)
    return t


def _reftype(bp, memo):
    op, params, ch = bp
    if op == "SYMBOL":
        return params[1]
    if op == "CONST":
        ty, v = params
        if ty == BOOL:
            isinstance(v, bool) or _ill("bool const")
        elif ty == INT:
            (isinstance(v, int) and not isinstance(v, bool)) or _ill("int const")
        elif ty == REAL:
            isinstance(v, Fraction) or _ill("real const")
        elif ty == STRING:
            isinstance(v, str) or _ill("str const")
        elif is_bv(ty):
            (ty[1] > 0 and isinstance(v, int) and 0 <= v < 2 ** ty[1]) or _ill("bv const")
        else:
            _ill("const of type %r" % (ty,))
        return ty
    ts = [reftype(c, memo) for c in ch]
    for t in ts:
        if is_fun(t):
            _ill("function-typed argument")
    n = len(ts)

    def all_are(t):
        return all(x == t for x in ts)

    if op in ("AND", "OR"):
        (n >= 2 and all_are(BOOL)) or _ill(op)
        return BOOL
    if op == "NOT":
        (n == 1 and all_are(BOOL)) or _ill(op)
        return BOOL
    if op in ("IMPLIES", "IFF"):
        (n == 2 and all_are(BOOL)) or _ill(op)
        return BOOL
    if op in ("FORALL", "EXISTS"):
        (n == 1 and ts[0] == BOOL and len(params) >= 1) or _ill(op)
        for (_, vt) in params:
            (not is_fun(vt)) or _ill("function-typed binder")
        return BOOL
    if op == "FUNCTION":
        name, fty = params
        (is_fun(fty) and len(fty[2]) == n and n >= 1) or _ill("arity")
        for a, p in zip(ts, fty[2]):
            a == p or _ill("function argument sort")
        return fty[1]
    if op in ("PLUS", "TIMES"):
        (n >= 2 and (all_are(INT) or all_are(REAL))) or _ill(op)
        return ts[0]
    if op in ("MINUS", "DIV"):
        (n == 2 and (all_are(INT) or all_are(REAL))) or _ill(op)
        return ts[0]
    if op == "POW":
        (n == 2 and (all_are(INT) or all_are(REAL))) or _ill(op)
        return REAL
    if op in ("LE", "LT"):
        (n == 2 and (all_are(INT) or all_are(REAL))) or _ill(op)
        return BOOL
    if op == "EQUALS":
        (n == 2 and ts[0] == ts[1] and ts[0] != BOOL) or _ill(op)
        return BOOL
    if op == "ITE":
        (n == 3 and ts[0] == BOOL and ts[1] == ts[2]) or _ill(op)
        return ts[1]
    if op == "TOREAL":
        (n == 1 and ts[0] == INT) or _ill(op)
        return REAL
    if op in _BV_BIN:
        (n == 2 and is_bv(ts[0]) and ts[0] == ts[1]) or _ill(op)
        return ts[0]
    if op in _BV_UN:
        (n == 1 and is_bv(ts[0])) or _ill(op)
        return ts[0]
    if op in _BV_REL:
        (n == 2 and is_bv(ts[0]) and ts[0] == ts[1]) or _ill(op)
        return BOOL
    if op == "BV_COMP":
        (n == 2 and is_bv(ts[0]) and ts[0] == ts[1]) or _ill(op)
        return ("BV", 1)
    if op == "BV_CONCAT":
        (n == 2 and is_bv(ts[0]) and is_bv(ts[1])) or _ill(op)
        return ("BV", ts[0][1] + ts[1][1])
    if op == "BV_EXTRACT":
        (n == 1 and is_bv(ts[0])) or _ill(op)
        s, e = params
        (isinstance(s, int) and isinstance(e, int) and 0 <= s <= e < ts[0][1]) or _ill("extract range")
        return ("BV", e - s + 1)
    if op in ("BV_ROL", "BV_ROR"):
        (n == 1 and is_bv(ts[0])) or _ill(op)
        (isinstance(params[0], int) and params[0] >= 0) or _ill("rotate step")
        return ts[0]
    if op in ("BV_ZEXT", "BV_SEXT"):
        (n == 1 and is_bv(ts[0])) or _ill(op)
        (isinstance(params[0], int) and params[0] >= 0) or _ill("extend step")
        return ("BV", ts[0][1] + params[0])
    if op == "BV_TONATURAL":
        (n == 1 and is_bv(ts[0])) or _ill(op)
        return INT
    if op == "STR_LENGTH" or op == "STR_TO_INT":
        (n == 1 and ts[0] == STRING) or _ill(op)
        return INT
    if op == "INT_TO_STR":
        (n == 1 and ts[0] == INT) or _ill(op)
        return STRING
    if op == "STR_CONCAT":
        (n >= 2 and all_are(STRING)) or _ill(op)
        return STRING
    if op in ("STR_CONTAINS", "STR_PREFIXOF", "STR_SUFFIXOF"):
        (n == 2 and all_are(STRING)) or _ill(op)
        return BOOL
    if op == "STR_INDEXOF":
        (n == 3 and ts == [STRING, STRING, INT]) or _ill(op)
        return INT
    if op == "STR_REPLACE":
        (n == 3 and all_are(STRING)) or _ill(op)
        return STRING
    if op == "STR_SUBSTR":
        (n == 3 and ts == [STRING, INT, INT]) or _ill(op)
        return STRING
    if op == "STR_CHARAT":
        (n == 2 and ts == [STRING, INT]) or _ill(op)
        return STRING
    if op == "ARRAY_SELECT":
        (n == 2 and is_arr(ts[0]) and ts[0][1] == ts[1]) or _ill(op)
        return ts[0][2]
    if op == "ARRAY_STORE":
        (n == 3 and is_arr(ts[0]) and ts[0][1] == ts[1] and ts[0][2] == ts[2]) or _ill(op)
        return ts[0]
    if op == "ARRAY_VALUE":
        it = params[0]
        (n >= 1 and n % 2 == 1) or _ill(op)
        (not is_fun(it)) or _ill("array index sort")
        for i in range(1, n, 2):
            (ts[i] == it and ts[i + 1] == ts[0]) or _ill("array value entry")
        return ("Array", it, ts[0])
    # ---- SMT-LIB operators without a pySMT node type (used by the independent reader)
    if op == "XOR":
        (n >= 2 and all_are(BOOL)) or _ill(op)
        return BOOL
    if op == "DISTINCT":
        (n >= 2 and all(t == ts[0] for t in ts)) or _ill(op)
        return BOOL
    if op == "EQ":            # SMT-LIB = (also on Bool)
        (n == 2 and ts[0] == ts[1]) or _ill(op)
        return BOOL
    if op == "NEG":
        (n == 1 and ts[0] in (INT, REAL)) or _ill(op)
        return ts[0]
    if op in ("INT_MOD", "INT_DIV"):
        (n == 2 and all_are(INT)) or _ill(op)
        return INT
    if op == "REAL_DIV":
        (n == 2 and all_are(REAL)) or _ill(op)
        return REAL
    if op == "ABS":
        (n == 1 and ts[0] == INT) or _ill(op)
        return INT
    if op == "TO_INT":
        (n == 1 and ts[0] == REAL) or _ill(op)
        return INT
    if op == "IS_INT":
        (n == 1 and ts[0] == REAL) or _ill(op)
        return BOOL
    if op == "BV_SMOD":
        (n == 2 and is_bv(ts[0]) and ts[0] == ts[1]) or _ill(op)
        return ts[0]
    if op == "BV_REPEAT":
        (n == 1 and is_bv(ts[0]) and isinstance(params[0], int) and params[0] >= 1) or _ill(op)
        return ("BV", ts[0][1] * params[0])
    _ill("unknown operator %s" % op)


# ---------------------------------------------------------------- free symbols

def reffv(bp):
    """Free symbols as (name, type); function names count; binders remove."""
    memo = {}

    def go(t):
        k = id(t)
        if k in memo and memo[k][0] is t:
            return memo[k][1]
        op, params, ch = t
        if op == "SYMBOL":
            r = frozenset([params])
        elif op == "CONST":
            r = frozenset()
        else:
            r = frozenset().union(*[go(c) for c in ch]) if ch else frozenset()
            if op == "FUNCTION":
                r = r | frozenset([params])
            elif op in ("FORALL", "EXISTS"):
                r = r - frozenset(params)
        memo[k] = (t, r)
        return r
    return go(bp)


def all_symbols(bp):
    """Every symbol mentioned anywhere (free, bound, function names)."""
    out = set()
    from vf.bp import subterms
    for op, params, ch in subterms(bp):
        if op == "SYMBOL":
            out.add(params)
        elif op == "FUNCTION":
            out.add(params)
        elif op in ("FORALL", "EXISTS"):
            out.update(params)
    return frozenset(out)


def sorts_of_type(ty, acc):
    if is_sort(ty):
        acc.add(ty[1])
    elif is_arr(ty):
        sorts_of_type(ty[1], acc)
        sorts_of_type(ty[2], acc)
    elif is_fun(ty):
        sorts_of_type(ty[1], acc)
        for p in ty[2]:
            sorts_of_type(p, acc)
    return acc


# ---------------------------------------------------------------- evaluation

def _signed(u, w):
    return u - (1 << w) if u >> (w - 1) else u


def bv_udiv(u, v, w):
    return (1 << w) - 1 if v == 0 else u // v


def bv_urem(u, v, w):
    return u if v == 0 else u % v


def bv_neg(u, w):
    return (-u) % (1 << w)


def bv_sdiv(u, v, w):
    ns, nt = u >> (w - 1), v >> (w - 1)
    if not ns and not nt:
        return bv_udiv(u, v, w)
    if ns and not nt:
        return bv_neg(bv_udiv(bv_neg(u, w), v, w), w)
    if not ns and nt:
        return bv_neg(bv_udiv(u, bv_neg(v, w), w), w)
    return bv_udiv(bv_neg(u, w), bv_neg(v, w), w)


def bv_srem(u, v, w):
    ns, nt = u >> (w - 1), v >> (w - 1)
    if not ns and not nt:
        return bv_urem(u, v, w)
    if ns and not nt:
        return bv_neg(bv_urem(bv_neg(u, w), v, w), w)
    if not ns and nt:
        return bv_urem(u, bv_neg(v, w), w)
    return bv_neg(bv_urem(bv_neg(u, w), bv_neg(v, w), w), w)


def bv_smod(u, v, w):
    ns, nt = u >> (w - 1), v >> (w - 1)
    au = bv_neg(u, w) if ns else u
    av = bv_neg(v, w) if nt else v
    r = bv_urem(au, av, w)
    M = 1 << w
    if r == 0:
        return r
    if not ns and not nt:
        return r
    if ns and not nt:
        return (bv_neg(r, w) + v) % M
    if not ns and nt:
        return (r + v) % M
    return bv_neg(r, w)


def int_div(x, y):
    if y == 0:
        raise Unconstrained()
    if y > 0:
        return x // y
    return -(x // (-y))


def str_to_int(s):
    if s and all(c in "0123456789" for c in s):
        return int(s)
    return -1


def str_indexof(s, t, i):
    if i < 0 or i > len(s):
        return -1
    return s.find(t, i)


def str_substr(s, i, n):
    if 0 <= i < len(s) and n > 0:
        return s[i:i + min(n, len(s) - i)]
    return ""


def str_at(s, i):
    if 0 <= i < len(s):
        return s[i]
    return ""


class EvalBudget(NoSemantics):
    """Evaluation needs more steps than the budget (deeply nested binders): inconclusive."""


class Evaluator(object):
    BUDGET = 60000

    def __init__(self, interp, cards=None, budget=None, window=None):
        """window: optional {type: [values]} giving binders over unbounded sorts a finite range.
        This is NOT SMT-LIB semantics; it is only used to compare two renderings of the *same*
        formula (a faithful printer/reader pair agrees under any range of the binders)."""
        self.interp = interp
        self.cards = cards or {}
        self.window = window
        self.tmemo = {}
        self.steps = 0
        self.budget = budget or self.BUDGET

    def ty(self, bp):
        return reftype(bp, self.tmemo)

    def eval(self, bp):
        return self._ev(bp, {}, {})

    def _ev(self, bp, bound, memo):
        k = id(bp)
        hit = memo.get(k)
        if hit is not None and hit[0] is bp:
            return hit[1]
        self.steps += 1
        if self.steps > self.budget:
            raise EvalBudget("evaluation budget exceeded")
        v = self._ev1(bp, bound, memo)
        memo[k] = (bp, v)
        return v

    def _ev1(self, bp, bound, memo):
        op, params, ch = bp
        if op == "SYMBOL":
            if params in bound:
                return bound[params]
            try:
                return self.interp[params[0]]
            except KeyError:
                raise KeyError("no interpretation for symbol %r" % (params,))
        if op == "CONST":
            return params[1]
        if op in ("FORALL", "EXISTS"):
            doms = [list(self.window[t]) if (self.window and t in self.window) else list(domain_iter(t, self.cards))
                    for (_, t) in params]
            want_all = op == "FORALL"
            res = want_all
            unc = None
            for combo in itertools.product(*doms):
                nb = dict(bound)
                for p, v in zip(params, combo):
                    nb[p] = v
                try:
                    r = self._ev(ch[0], nb, {})
                except Unconstrained as e:
                    unc = e
                    continue
                if r != want_all:
                    res = not want_all
            if unc is not None:
                raise unc
            return res
        # ITE / AND / OR are evaluated strictly: an Unconstrained in any
        # argument discards the interpretation (conservative).
        a = [self._ev(c, bound, memo) for c in ch]
        if op == "AND":
            return all(a)
        if op == "OR":
            return any(a)
        if op == "NOT":
            return not a[0]
        if op == "IMPLIES":
            return (not a[0]) or a[1]
        if op == "IFF":
            return a[0] == a[1]
        if op == "ITE":
            return a[1] if a[0] else a[2]
        if op == "EQUALS":
            return val_eq(a[0], a[1], self.ty(ch[0]), self.cards)
        if op == "FUNCTION":
            name, fty = params
            f = bound.get(params)
            if f is None:
                f = self.interp[name]
            cargs = tuple(canon(v, t, self.cards) for v, t in zip(a, fty[2]))
            return f(cargs)
        if op == "PLUS":
            r = a[0]
            for x in a[1:]:
                r = r + x
            return r
        if op == "TIMES":
            r = a[0]
            for x in a[1:]:
                r = r * x
            return r
        if op == "MINUS":
            return a[0] - a[1]
        if op == "DIV":
            if self.ty(ch[0]) == INT:
                return int_div(a[0], a[1])
            if a[1] == 0:
                raise Unconstrained()
            return Fraction(a[0]) / Fraction(a[1])
        if op == "POW":
            # n-th power for a constant integer exponent; 0^e for e <= 0 is left unconstrained and
            # non-integer exponents (roots) have no reference semantics here
            e = Fraction(a[1])
            if e.denominator != 1:
                raise NoSemantics("POW with a non-integer exponent")
            if a[0] == 0 and e <= 0:
                raise Unconstrained()
            return Fraction(a[0]) ** int(e)
        if op == "XOR":
            r = a[0]
            for x in a[1:]:
                r = r != x
            return r
        if op == "DISTINCT":
            t0 = self.ty(ch[0])
            cs = [canon(v, t0, self.cards) for v in a]
            return len(set(cs)) == len(cs)
        if op == "EQ":
            return val_eq(a[0], a[1], self.ty(ch[0]), self.cards)
        if op == "NEG":
            return -a[0]
        if op == "INT_DIV":
            return int_div(a[0], a[1])
        if op == "INT_MOD":
            if a[1] == 0:
                raise Unconstrained()
            return a[0] - a[1] * int_div(a[0], a[1])
        if op == "REAL_DIV":
            if a[1] == 0:
                raise Unconstrained()
            return Fraction(a[0]) / Fraction(a[1])
        if op == "ABS":
            return abs(a[0])
        if op == "TO_INT":
            return a[0].numerator // a[0].denominator
        if op == "IS_INT":
            return Fraction(a[0]).denominator == 1
        if op == "LE":
            return a[0] <= a[1]
        if op == "LT":
            return a[0] < a[1]
        if op == "TOREAL":
            return Fraction(a[0])
        if op.startswith("BV_"):
            return self._bv(op, params, ch, a)
        if op == "STR_LENGTH":
            return len(a[0])
        if op == "STR_CONCAT":
            return "".join(a)
        if op == "STR_CONTAINS":
            return a[1] in a[0]
        if op == "STR_INDEXOF":
            return str_indexof(a[0], a[1], a[2])
        if op == "STR_REPLACE":
            return a[0].replace(a[1], a[2], 1)
        if op == "STR_SUBSTR":
            return str_substr(a[0], a[1], a[2])
        if op == "STR_PREFIXOF":
            return a[1].startswith(a[0])
        if op == "STR_SUFFIXOF":
            return a[1].endswith(a[0])
        if op == "STR_TO_INT":
            return str_to_int(a[0])
        if op == "INT_TO_STR":
            return str(a[0]) if a[0] >= 0 else ""
        if op == "STR_CHARAT":
            return str_at(a[0], a[1])
        if op == "ARRAY_SELECT":
            at = self.ty(ch[0])
            return self._arr_get(a[0], a[1], at)
        if op == "ARRAY_STORE":
            at = self.ty(ch[0])
            return self._arr_store(a[0], a[1], a[2], at)
        if op == "ARRAY_VALUE":
            it = params[0]
            arr = ArrV(a[0])
            at = ("Array", it, self.ty(ch[0]))
            for i in range(1, len(a), 2):
                arr = self._arr_store(arr, a[i], a[i + 1], at)
            return arr
        raise NoSemantics(op)

    def _arr_get(self, arr, k, at):
        ck = canon(k, at[1], self.cards)
        return arr.items.get(ck, arr.default)

    def _arr_store(self, arr, k, v, at):
        ck = canon(k, at[1], self.cards)
        return arr.store(ck, v)

    def _bv(self, op, params, ch, a):
        t0 = self.ty(ch[0])
        w = t0[1]
        M = 1 << w
        u = a[0]
        v = a[1] if len(a) > 1 else None
        if op == "BV_NOT":
            return M - 1 - u
        if op == "BV_NEG":
            return (-u) % M
        if op == "BV_AND":
            return u & v
        if op == "BV_OR":
            return u | v
        if op == "BV_XOR":
            return u ^ v
        if op == "BV_ADD":
            return (u + v) % M
        if op == "BV_SUB":
            return (u - v) % M
        if op == "BV_MUL":
            return (u * v) % M
        if op == "BV_UDIV":
            return bv_udiv(u, v, w)
        if op == "BV_UREM":
            return bv_urem(u, v, w)
        if op == "BV_SDIV":
            return bv_sdiv(u, v, w)
        if op == "BV_SREM":
            return bv_srem(u, v, w)
        if op == "BV_LSHL":
            return 0 if v >= w else (u << v) % M
        if op == "BV_LSHR":
            return 0 if v >= w else u >> v
        if op == "BV_ASHR":
            return (_signed(u, w) >> min(v, w)) % M
        if op == "BV_ROL":
            k = params[0] % w
            return ((u << k) | (u >> (w - k))) % M
        if op == "BV_ROR":
            k = params[0] % w
            return ((u >> k) | (u << (w - k))) % M
        if op == "BV_ZEXT":
            return u
        if op == "BV_SEXT":
            return _signed(u, w) % (1 << (w + params[0]))
        if op == "BV_CONCAT":
            w2 = self.ty(ch[1])[1]
            return (u << w2) | v
        if op == "BV_EXTRACT":
            s, e = params
            return (u >> s) % (1 << (e - s + 1))
        if op == "BV_ULT":
            return u < v
        if op == "BV_ULE":
            return u <= v
        if op == "BV_SLT":
            return _signed(u, w) < _signed(v, w)
        if op == "BV_SLE":
            return _signed(u, w) <= _signed(v, w)
        if op == "BV_COMP":
            return 1 if u == v else 0
        if op == "BV_TONATURAL":
            return u
        if op == "BV_SMOD":
            return bv_smod(u, v, w)
        if op == "BV_REPEAT":
            r = 0
            for _ in range(params[0]):
                r = (r << w) | u
            return r
        raise NoSemantics(op)


def evaluate(bp, interp, cards=None):
    return Evaluator(interp, cards).eval(bp)


def default_value(ty, cards=None):
    if ty == BOOL:
        return False
    if ty == INT:
        return 0
    if ty == REAL:
        return Fraction(0)
    if ty == STRING:
        return ""
    if is_bv(ty) or is_sort(ty):
        return 0
    if is_arr(ty):
        return ArrV(default_value(ty[2], cards))
    raise ValueError(ty)
