"""Runner plumbing: shard collection, known findings, evidence, replay files."""
import collections
import json
import multiprocessing
import os
import sys
import time
import traceback

from vf.bp import to_json, from_json, bphash

ROOT = os.path.dirname(os.path.dirname(os.path.abspath(__file__)))
KNOWN_FILE = os.path.join(ROOT, "known_findings.json")
# runs against seeded changes write their evidence / replays elsewhere
OUT = os.environ.get("VERIF_SCRATCH") or ROOT
NPROC = int(os.environ.get("VERIF_NPROC", "16"))


class HarnessError(Exception):
    """The harness (oracle, generator, reference process) is at fault: exit 2."""


def load_known():
    try:
        with open(KNOWN_FILE) as f:
            return json.load(f)
    except FileNotFoundError:
        return []


class Run(object):
    """Collector for one shard (or one whole sequential check)."""
    MAX_VIOL = 12
    MAX_SAMPLES = 4

    def __init__(self, pid, known=None):
        self.pid = pid
        self.known = [k for k in (load_known() if known is None else known)
                      if k.get("property") == pid and k.get("status") == "open"]
        self.evaluations = 0
        self.nontrivial = set()
        self.classes = collections.Counter()
        self.discards = collections.Counter()
        self.excluded = collections.Counter()
        self.samples = []
        self.violations = []
        self.viol_sigs = collections.Counter()
        self.extra = {}

    # -- counting
    def case(self, key=None, nontrivial=False, sample=None, n=1):
        self.evaluations += n
        if nontrivial and key is not None:
            self.nontrivial.add(key if isinstance(key, str) else bphash(key))
        if sample is not None and len(self.samples) < self.MAX_SAMPLES:
            self.samples.append(sample)

    def cls(self, name, n=1):
        self.classes[name] += n

    def discard(self, why, n=1):
        self.discards[why] += n

    # -- failures
    def match_known(self, sig):
        for k in self.known:
            ks = k.get("signature", {})
            if all(sig.get(f) == v for f, v in ks.items()):
                return k
        return None

    def fail(self, sig, case, detail):
        """Report a property violation.  sig: dict with at least 'subcheck'."""
        k = self.match_known(sig)
        if k is not None:
            self.excluded[k["id"]] += 1
            return False
        key = json.dumps(sig, sort_keys=True)
        self.viol_sigs[key] += 1
        if self.viol_sigs[key] <= 2 and len(self.violations) < self.MAX_VIOL:
            self.violations.append({"signature": sig, "case": to_json(case), "detail": str(detail)[:2000]})
        return True

    def to_dict(self):
        return {
            "evaluations": self.evaluations, "nontrivial": list(self.nontrivial),
            "classes": dict(self.classes), "discards": dict(self.discards),
            "excluded": dict(self.excluded), "samples": self.samples,
            "violations": self.violations, "viol_sigs": dict(self.viol_sigs), "extra": self.extra,
        }

    def merge(self, d):
        self.evaluations += d["evaluations"]
        self.nontrivial.update(d["nontrivial"])
        self.classes.update(d["classes"])
        self.discards.update(d["discards"])
        self.excluded.update(d["excluded"])
        for s in d["samples"]:
            if len(self.samples) < 12:
                self.samples.append(s)
        for k, n in d["viol_sigs"].items():
            self.viol_sigs[k] += n
        have = {json.dumps(v["signature"], sort_keys=True) for v in self.violations}
        for v in d["violations"]:
            key = json.dumps(v["signature"], sort_keys=True)
            if key not in have and len(self.violations) < 40:
                self.violations.append(v)
                have.add(key)
        for k, v in d.get("extra", {}).items():
            if isinstance(v, (int, float)) and isinstance(self.extra.get(k, 0), (int, float)):
                self.extra[k] = self.extra.get(k, 0) + v
            else:
                self.extra.setdefault(k, v)


def _shard_entry(args):
    fn, kwargs = args
    try:
        r = fn(**kwargs)
        return ("ok", r.to_dict() if isinstance(r, Run) else r)
    except BaseException:
        return ("err", traceback.format_exc())


def run_shards(jobs, nproc=None):
    """jobs: list of (callable, kwargs) -> list of Run dicts.  Fork-based pool."""
    nproc = nproc or NPROC
    if nproc <= 1 or len(jobs) <= 1:
        res = [_shard_entry(j) for j in jobs]
    else:
        # (non-daemonic workers: some checks start processes of their own)
        from concurrent.futures import ProcessPoolExecutor
        ctx = multiprocessing.get_context("fork")
        with ProcessPoolExecutor(max_workers=min(nproc, len(jobs)), mp_context=ctx) as pool:
            res = list(pool.map(_shard_entry, jobs, chunksize=1))
    out = []
    for tag, r in res:
        if tag == "err":
            raise HarnessError("shard failed:\n" + r)
        out.append(r)
    return out


def drive(body, strategy, n, seed_value, shrink=False):
    """Run `body(case)` on n generated cases (Hypothesis, seeded, no database)."""
    import hypothesis
    from hypothesis import given, settings, HealthCheck, Phase, Verbosity
    phases = [Phase.generate] + ([Phase.shrink] if shrink else [])

    @hypothesis.seed(seed_value)
    @settings(max_examples=n, database=None, deadline=None, derandomize=False,
              suppress_health_check=list(HealthCheck), phases=phases,
              report_multiple_bugs=False, verbosity=Verbosity.quiet)
    @given(strategy)
    def t(case):
        body(case)
    t()


def derive_seed(seed, *parts):
    import zlib
    return zlib.crc32(repr((seed,) + parts).encode()) & 0x7FFFFFFF


class Check(object):
    """One property check: collects shard results, writes evidence, exit code."""

    def __init__(self, pid, level, rule, assumptions=()):
        self.pid = pid
        self.level = level
        self.rule = rule
        self.assumptions = list(assumptions)
        self.tier = os.environ.get("VERIF_TIER", "quick")
        self.seed = int(os.environ.get("VERIF_SEED", "1"))
        self.total = Run(pid)
        self.t0 = time.time()
        self.exhaustive = []
        self.floors = []
        self.notes = {}

    def add(self, dicts):
        for d in dicts:
            self.total.merge(d)

    def floor(self, cls, minimum):
        self.floors.append((cls, minimum))

    def finish(self):
        tot = self.total
        known = {k["id"]: k for k in load_known() if k.get("property") == self.pid}
        for kid, n in sorted(tot.excluded.items()):
            print("KNOWN-FINDING: property=%s %s [%s, %d cases excluded]" % (
                self.pid, known[kid]["what"], kid, n))
        rc = 0
        paths = []
        for v in tot.violations:
            rec = {"property": self.pid, "tier": self.tier, "seed": self.seed}
            rec.update(v)
            h = bphash(rec["case"])
            d = os.path.join(OUT, "replays", self.pid)
            os.makedirs(d, exist_ok=True)
            p = os.path.join(d, "%s.json" % h)
            with open(p, "w") as f:
                json.dump(rec, f, indent=1)
            rel = os.path.relpath(p, ROOT) if OUT == ROOT else p
            paths.append(rel)
            print("VIOLATION property=%s replay=%s" % (self.pid, rel))
            print("  signature=%s" % json.dumps(v["signature"], sort_keys=True))
            print("  detail=%s" % v["detail"][:600].replace("\n", "\n    "))
            rc = 1
        starved = []
        for cls, minimum in self.floors:
            if tot.classes.get(cls, 0) < minimum:
                starved.append("%s=%d<%d" % (cls, tot.classes.get(cls, 0), minimum))
        cov = {
            "evaluations": tot.evaluations,
            "distinct_nontrivial": len(tot.nontrivial),
            "rule": self.rule,
            "samples": tot.samples[:8] or ["(none)"],
            "classes": dict(sorted(tot.classes.items())),
            "discards": dict(tot.discards),
            "excluded_known": dict(tot.excluded),
            "floors": {cls: {"minimum": minimum, "count": tot.classes.get(cls, 0)} for cls, minimum in self.floors},
            "exhaustive_subspaces": self.exhaustive,
            "shards": NPROC,
        }
        if self.exhaustive and self.notes.get("all_exhaustive"):
            cov["exhaustive"] = True
        cov.update(self.notes)
        cov.update({k: v for k, v in tot.extra.items()})
        ev = {
            "property_id": self.pid, "tier": self.tier if self.tier in ("quick", "thorough") else "quick",
            "seed": self.seed, "level": self.level, "coverage": cov,
            "assumptions": self.assumptions, "wall_s": round(time.time() - self.t0, 2),
            "violations": sum(tot.viol_sigs.values()),
        }
        os.makedirs(os.path.join(OUT, "evidence"), exist_ok=True)
        with open(os.path.join(OUT, "evidence", "%s.json" % self.pid), "w") as f:
            json.dump(ev, f, indent=1, default=str)
        print("%s tier=%s seed=%d evaluations=%d distinct_nontrivial=%d excluded_known=%d violations=%d wall=%.1fs" % (
            self.pid, self.tier, self.seed, tot.evaluations, len(tot.nontrivial),
            sum(tot.excluded.values()), sum(tot.viol_sigs.values()), time.time() - self.t0))
        if starved and rc == 0:
            print("HARNESS-ERROR generator starved: %s" % ", ".join(starved))
            return 2
        return rc


def load_replay(path):
    with open(path) as f:
        rec = json.load(f)
    rec["case"] = from_json(rec["case"])
    return rec
