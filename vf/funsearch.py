"""Satisfiability by enumeration when uninterpreted functions occur: function graphs are built lazily.

A function symbol is interpreted by a partial table; evaluating an application at a point that the table does
not have raises NeedPoint, and the search branches over the values of the result sort at that point.  Only the
points that the formulas actually look at are ever decided.  No pysmt import.
"""
import itertools

from vf.refsem import Evaluator, reffv, FunV
from vf.bp import is_fun


class NeedPoint(Exception):
    def __init__(self, name, args):
        Exception.__init__(self, "%s%r" % (name, args))
        self.name, self.args_ = name, args


class LazyFun(object):
    def __init__(self, name, table):
        self.name, self.table = name, table

    def __call__(self, cargs):
        try:
            return self.table[cargs]
        except KeyError:
            raise NeedPoint(self.name, cargs)


def find_model(forms, cards, domain, budget=200000):
    """-> (I, exhausted): I maps every free symbol of forms to a value (FunV for functions) satisfying all of
    them, or None.  domain(type) -> list of values | None (cannot enumerate -> returns ('unknown', ...)).
    Raises whatever the evaluator raises (Unconstrained / NoSemantics)."""
    syms = set()
    for b in forms:
        syms |= reffv(b)
    plain = sorted((s for s in syms if not is_fun(s[1])), key=repr)
    funs = sorted((s for s in syms if is_fun(s[1])), key=repr)
    doms = []
    for (_, t) in plain:
        d = domain(t)
        if d is None:
            return "unknown", None
        doms.append(d)
    rdom = {}
    for (n, t) in funs:
        d = domain(t[1])
        if d is None:
            return "unknown", None
        rdom[n] = d
    # formulas without applications first: they prune an assignment before any function point is decided
    from vf.bp import ops_of
    forms = sorted(forms, key=lambda b: (("FUNCTION" in ops_of(b)), 0))
    free_forms = [b for b in forms if "FUNCTION" not in ops_of(b)]
    steps = [0]

    def dfs(I, tables):
        steps[0] += 1
        if steps[0] > budget:
            raise OverflowError("search budget")
        J = dict(I)
        for (n, _) in funs:
            J[n] = LazyFun(n, tables[n])
        try:
            return all(Evaluator(J, cards).eval(b) for b in forms)
        except NeedPoint as np:
            for v in rdom[np.name]:
                tables[np.name][np.args_] = v
                if dfs(I, tables):
                    return True
            del tables[np.name][np.args_]
            return False

    for combo in itertools.product(*doms):
        I = {n: v for (n, _), v in zip(plain, combo)}
        tables = {n: {} for (n, _) in funs}
        if funs and free_forms and not all(Evaluator(I, cards).eval(b) for b in free_forms):
            continue
        try:
            ok = dfs(I, tables)
        except OverflowError:
            return "unknown", None
        if ok:
            for (n, t) in funs:
                I[n] = FunV([rdom[n][0]], tables[n])
            return "sat", I
    return "unsat", None
