"""Adapters between blueprints and pySMT.

build(env, bp)  -> FNode      (FormulaManager constructors, bottom-up)
decode(fnode)   -> blueprint  (public structural accessors only)
"""
from fractions import Fraction

import pysmt.operators as op
import pysmt.typing as ptypes

from vf.bp import BOOL, INT, REAL, STRING, is_bv, is_arr, is_sort, is_fun

OPNAME = {i: op.op_to_str(i) for i in op.ALL_TYPES}


def to_ptype(env, ty):
    tm = env.type_manager
    if ty == BOOL:
        return ptypes.BOOL
    if ty == INT:
        return ptypes.INT
    if ty == REAL:
        return ptypes.REAL
    if ty == STRING:
        return ptypes.STRING
    if is_bv(ty):
        return tm.BVType(ty[1])
    if is_arr(ty):
        return tm.ArrayType(to_ptype(env, ty[1]), to_ptype(env, ty[2]))
    if is_sort(ty):
        name = ty[1]
        if "{" in name:
            # instance of a parametric sort, e.g. "L{S1}" or "P{S2, Int}"
            base, rest = name.split("{", 1)
            args = [a.strip() for a in rest[:-1].split(",")]
            decl = tm.Type(base, len(args))
            return tm.get_type_instance(decl, *[to_ptype(env, _simple_type(a)) for a in args])
        return tm.Type(name, 0)
    if is_fun(ty):
        return tm.FunctionType(to_ptype(env, ty[1]), [to_ptype(env, p) for p in ty[2]])
    raise ValueError(ty)


def _simple_type(a):
    if a in ("Int", "Real", "Bool", "String"):
        return a
    return ("Sort", a)


def from_ptype(pt):
    if pt.is_bool_type():
        return BOOL
    if pt.is_int_type():
        return INT
    if pt.is_real_type():
        return REAL
    if pt.is_string_type():
        return STRING
    if pt.is_bv_type():
        return ("BV", pt.width)
    if pt.is_array_type():
        return ("Array", from_ptype(pt.index_type), from_ptype(pt.elem_type))
    if pt.is_function_type():
        return ("Fun", from_ptype(pt.return_type), tuple(from_ptype(p) for p in pt.param_types))
    if pt.arity == 0 and pt.basename is not None:
        return ("Sort", pt.basename)
    if pt.is_custom_type() and pt.args:
        return ("Sort", pt.name)
    raise ValueError("cannot decode type %r" % (pt,))


_NARY = {"AND": "And", "OR": "Or", "PLUS": "Plus", "TIMES": "Times", "STR_CONCAT": "StrConcat"}
_FIXED = {
    "NOT": "Not", "IMPLIES": "Implies", "IFF": "Iff", "MINUS": "Minus", "DIV": "Div", "POW": "Pow",
    "LE": "LE", "LT": "LT", "EQUALS": "Equals", "ITE": "Ite", "TOREAL": "ToReal",
    "BV_NOT": "BVNot", "BV_AND": "BVAnd", "BV_OR": "BVOr", "BV_XOR": "BVXor", "BV_CONCAT": "BVConcat",
    "BV_ULT": "BVULT", "BV_ULE": "BVULE", "BV_NEG": "BVNeg", "BV_ADD": "BVAdd", "BV_SUB": "BVSub",
    "BV_MUL": "BVMul", "BV_UDIV": "BVUDiv", "BV_UREM": "BVURem", "BV_LSHL": "BVLShl",
    "BV_LSHR": "BVLShr", "BV_SLT": "BVSLT", "BV_SLE": "BVSLE", "BV_COMP": "BVComp",
    "BV_SDIV": "BVSDiv", "BV_SREM": "BVSRem", "BV_ASHR": "BVAShr",
    "STR_LENGTH": "StrLength", "STR_CONTAINS": "StrContains", "STR_INDEXOF": "StrIndexOf",
    "STR_REPLACE": "StrReplace", "STR_SUBSTR": "StrSubstr", "STR_PREFIXOF": "StrPrefixOf",
    "STR_SUFFIXOF": "StrSuffixOf", "STR_TO_INT": "StrToInt", "INT_TO_STR": "IntToStr",
    "STR_CHARAT": "StrCharAt", "BV_TONATURAL": "BVToNatural",
    "ARRAY_SELECT": "Select", "ARRAY_STORE": "Store",
}
_PARAM1 = {"BV_ROL": "BVRol", "BV_ROR": "BVRor", "BV_ZEXT": "BVZExt", "BV_SEXT": "BVSExt"}


def build(env, bp, memo=None):
    """Build bp in env.  Raises whatever the constructors raise."""
    if memo is None:
        memo = {}
    return _build(env, env.formula_manager, bp, memo)


def _build(env, mgr, bp, memo):
    k = id(bp)
    hit = memo.get(k)
    if hit is not None and hit[0] is bp:
        return hit[1]
    r = _build1(env, mgr, bp, memo)
    memo[k] = (bp, r)
    return r


def build_const(env, ty, v):
    mgr = env.formula_manager
    if ty == BOOL:
        return mgr.Bool(v)
    if ty == INT:
        return mgr.Int(v)
    if ty == REAL:
        return mgr.Real(Fraction(v))
    if ty == STRING:
        return mgr.String(v)
    if is_bv(ty):
        return mgr.BV(v, ty[1])
    raise ValueError(ty)


def _build1(env, mgr, bp, memo):
    o, params, ch = bp
    if o == "SYMBOL":
        return mgr.Symbol(params[0], to_ptype(env, params[1]))
    if o == "CONST":
        return build_const(env, *params)
    a = [_build(env, mgr, c, memo) for c in ch]
    if o == "FUNCTION":
        f = mgr.Symbol(params[0], to_ptype(env, params[1]))
        return mgr.Function(f, a)
    if o in ("FORALL", "EXISTS"):
        vs = [mgr.Symbol(n, to_ptype(env, t)) for (n, t) in params]
        return (mgr.ForAll if o == "FORALL" else mgr.Exists)(vs, a[0])
    if o == "ARRAY_VALUE":
        assign = {}
        for i in range(1, len(a), 2):
            assign[a[i]] = a[i + 1]
        return mgr.Array(to_ptype(env, params[0]), a[0], assign)
    if o == "BV_EXTRACT":
        return mgr.BVExtract(a[0], params[0], params[1])
    if o in _PARAM1:
        return getattr(mgr, _PARAM1[o])(a[0], params[0])
    if o in _NARY:
        return getattr(mgr, _NARY[o])(a)
    return getattr(mgr, _FIXED[o])(*a)


def decode(f, memo=None):
    if memo is None:
        memo = {}
    # iterative post-order (formulas may be deep)
    stack = [(f, False)]
    while stack:
        n, expanded = stack.pop()
        if n in memo:
            continue
        if not expanded:
            stack.append((n, True))
            for c in n.args():
                if c not in memo:
                    stack.append((c, False))
        else:
            memo[n] = _decode1(n, [memo[c] for c in n.args()])
    return memo[f]


def _decode1(n, ch):
    nt = n.node_type()
    name = OPNAME.get(nt)
    if name is None:
        raise ValueError("unknown node type %r" % nt)
    ch = tuple(ch)
    if name == "SYMBOL":
        return ("SYMBOL", (n.symbol_name(), from_ptype(n.symbol_type())), ())
    if name == "BOOL_CONSTANT":
        return ("CONST", (BOOL, n.constant_value()), ())
    if name == "INT_CONSTANT":
        return ("CONST", (INT, int(n.constant_value())), ())
    if name == "REAL_CONSTANT":
        return ("CONST", (REAL, Fraction(n.constant_value())), ())
    if name == "STR_CONSTANT":
        return ("CONST", (STRING, n.constant_value()), ())
    if name == "BV_CONSTANT":
        return ("CONST", (("BV", n.bv_width()), int(n.constant_value())), ())
    if name == "FUNCTION":
        fn = n.function_name()
        return ("FUNCTION", (fn.symbol_name(), from_ptype(fn.symbol_type())), ch)
    if name in ("FORALL", "EXISTS"):
        vs = tuple((v.symbol_name(), from_ptype(v.symbol_type())) for v in n.quantifier_vars())
        return (name, vs, ch)
    if name == "ARRAY_VALUE":
        return (name, (from_ptype(n.array_value_index_type()),), ch)
    if name == "BV_EXTRACT":
        return (name, (n.bv_extract_start(), n.bv_extract_end()), ch)
    if name in ("BV_ROL", "BV_ROR"):
        return (name, (n.bv_rotation_step(),), ch)
    if name in ("BV_ZEXT", "BV_SEXT"):
        return (name, (n.bv_extend_step(),), ch)
    if name == "ALGEBRAIC_CONSTANT":
        raise ValueError("algebraic constant")
    return (name, (), ch)


def rebuild(env, node, args):
    """A node with the operator / parameters of `node` over the FNodes `args` (constructor calls)."""
    mgr = env.formula_manager
    o = OPNAME[node.node_type()]
    if not node.args() and not node.is_quantifier():
        if o == "SYMBOL":
            return mgr.Symbol(node.symbol_name(), node.symbol_type())
        if o == "ARRAY_VALUE":
            return mgr.Array(node.array_value_index_type(), args[0], {})
        return node
    a = list(args)
    if o == "FUNCTION":
        return mgr.Function(node.function_name(), a)
    if o in ("FORALL", "EXISTS"):
        return (mgr.ForAll if o == "FORALL" else mgr.Exists)(list(node.quantifier_vars()), a[0])
    if o == "ARRAY_VALUE":
        return mgr.Array(node.array_value_index_type(), a[0], dict(zip(a[1::2], a[2::2])))
    if o == "BV_EXTRACT":
        return mgr.BVExtract(a[0], node.bv_extract_start(), node.bv_extract_end())
    if o in ("BV_ROL", "BV_ROR"):
        return getattr(mgr, _PARAM1[o])(a[0], node.bv_rotation_step())
    if o in ("BV_ZEXT", "BV_SEXT"):
        return getattr(mgr, _PARAM1[o])(a[0], node.bv_extend_step())
    if o in _NARY:
        return getattr(mgr, _NARY[o])(a)
    return getattr(mgr, _FIXED[o])(*a)
