"""A brute-force IncrementalTrackingSolver (satisfiability by exhaustive enumeration).

Decorated exactly like the native solver classes (clear_pending_pop on every proxy method); the backend
keeps its own frame stack and *asserts* that every pop it is asked to perform is legal.  Used bare for
C16 and mixed with the optimiser mixins for C18.
"""
import itertools

from pysmt.solvers.solver import IncrementalTrackingSolver, Model
from pysmt.solvers.eager import EagerModel
from pysmt.solvers.options import SolverOptions
from pysmt.decorators import clear_pending_pop
from pysmt.logics import PYSMT_LOGICS
from pysmt.exceptions import SolverReturnedUnknownResultError

from vf import pys
from vf.refsem import Evaluator, reffv, Unconstrained
from vf.bp import BOOL, INT, REAL, is_bv


class BackendError(Exception):
    """The tracking layer asked the backend for something illegal (e.g. pop without push)."""


class BruteOptions(SolverOptions):
    def __call__(self, solver):
        pass


class BruteSolver(IncrementalTrackingSolver):
    LOGICS = PYSMT_LOGICS
    OptionsClass = BruteOptions
    INT_WINDOW = range(-2, 5)

    def __init__(self, environment, logic=None, reverse=False, **options):
        from pysmt.logics import QF_AUFBVLIRA
        IncrementalTrackingSolver.__init__(self, environment=environment, logic=logic or QF_AUFBVLIRA, **options)
        self.mgr = environment.formula_manager
        self.backend = [[]]            # frames of asserted FNodes
        self.reverse = reverse
        self._model = None
        self.solve_calls = 0
        self._memo = {}

    # ---- proxy methods (same decoration as MathSAT5Solver / BoolectorSolver)
    @clear_pending_pop
    def _reset_assertions(self):
        self.backend = [[]]

    @clear_pending_pop
    def _add_assertion(self, formula, named=None):
        self._assert_is_boolean(formula)
        self.backend[-1].append(formula)
        return formula

    @clear_pending_pop
    def _push(self, levels=1):
        for _ in range(levels):
            self.backend.append([])

    @clear_pending_pop
    def _pop(self, levels=1):
        for _ in range(levels):
            if len(self.backend) <= 1:
                raise BackendError("pop without a matching push")
            self.backend.pop()

    def backend_assertions(self):
        return [f for fr in self.backend for f in fr]

    @clear_pending_pop
    def _solve(self, assumptions=None):
        self.solve_calls += 1
        extra = list(assumptions or [])
        lits = [a for a in extra if a.is_literal()]
        other = [a for a in extra if not a.is_literal()]
        if other:
            self.push()
            self.add_assertion(self.mgr.And(other))
            self.pending_pop = True
        forms = self.backend_assertions() + lits
        self._model = self._search(forms)
        return self._model is not None

    # ---- enumeration
    def _domain(self, ty):
        if ty == BOOL:
            return [False, True]
        if is_bv(ty):
            if ty[1] > 6:
                raise SolverReturnedUnknownResultError("bit-vector too wide for enumeration")
            return list(range(1 << ty[1]))
        if ty == INT:
            return list(self.INT_WINDOW)
        raise SolverReturnedUnknownResultError("cannot enumerate sort %r" % (ty,))

    def _search(self, forms):
        bps = []
        with self.environment:
            for f in forms:
                bps.append(pys.decode(f, self._memo))
        syms = set()
        for b in bps:
            syms |= reffv(b)
        syms = sorted(syms, key=repr)
        if any(n == "the solver process dies" for (n, _) in syms):
            # what a text-interface solver raises when the process answers nonsense / dies at check-sat
            from pysmt.exceptions import UnknownSolverAnswerError
            raise UnknownSolverAnswerError("Solver returned: ''")
        doms = [self._domain(t) for (_, t) in syms]
        if self.reverse:
            doms = [list(reversed(d)) for d in doms]
        for combo in itertools.product(*doms):
            I = {n: v for (n, _), v in zip(syms, combo)}
            try:
                if all(Evaluator(I, {}).eval(b) for b in bps):
                    return {s: v for s, v in zip(syms, combo)}
            except Unconstrained:
                continue
        return None

    # ---- models
    def get_model(self):
        assert self._model is not None, "no model available"
        with self.environment:
            assign = {}
            for (n, t), v in self._model.items():
                assign[pys.build(self.environment, ("SYMBOL", (n, t), ()))] = pys.build_const(self.environment, t, v)
            return EagerModel(assignment=assign, environment=self.environment)

    @clear_pending_pop
    def get_value(self, formula):
        return self.get_model().get_value(formula)

    def _exit(self):
        pass

    def exit(self):
        pass


def make_optimizer(kind):
    """kind: 'sua' | 'incr' -> class mixing BruteSolver with the optimiser mixin."""
    from pysmt.optimization.optimizer import SUAOptimizerMixin, IncrementalOptimizerMixin
    mixin = SUAOptimizerMixin if kind == "sua" else IncrementalOptimizerMixin
    return type("Brute%sOptimizer" % kind.upper(), (BruteSolver, mixin), {})
