"""Twin-environment machinery for C14 (history independence) and C15 (failing calls leave no trace).

A *service call* is plain data: (service name, formula blueprint, argument data).  It can be executed in any
environment; its result is reduced to a canonical key that is insensitive to the order of commutative
arguments and to the names of fresh symbols (both legitimately depend on node ids / counters).
"""
import re
from io import StringIO

from pysmt.environment import Environment

from vf import bp as B
from vf.bp import BOOL, INT, REAL, STRING, BV, is_bv, is_fun, sym, subterms
from vf.refsem import reftype, reffv, IllTyped
from vf import pys

COMMUTATIVE = {"AND", "OR", "PLUS", "TIMES", "IFF", "EQUALS", "BV_AND", "BV_OR", "BV_XOR", "BV_ADD", "BV_MUL"}
FRESH = re.compile(r"^(FV\d+|ack\d+|__.*\d+|\.def_\d+|.*!\d+)$")


def ac_key(b):
    """AC-canonical, fresh-name-agnostic digest of a blueprint (O(DAG))."""
    import hashlib
    memo = {}
    stack = [(b, False)]
    while stack:
        t, done = stack.pop()
        if id(t) in memo:
            continue
        if not done:
            stack.append((t, True))
            for c in t[2]:
                if id(c) not in memo:
                    stack.append((c, False))
            continue
        op, params, ch = t
        ks = [memo[id(c)] for c in ch]
        if op in COMMUTATIVE:
            ks = sorted(ks)
        if op == "SYMBOL" or op == "FUNCTION":
            params = ("<fresh>" if FRESH.match(params[0]) else params[0], params[1])
        elif op in ("FORALL", "EXISTS"):
            # the order of the bound variables is part of the structure (a renamed variable takes the place of the one
            # it replaces, whatever fresh name it got)
            params = tuple(("<fresh>" if FRESH.match(n) else n, ty) for (n, ty) in params)
        elif op == "ARRAY_VALUE":
            pairs = sorted(zip(ks[1::2], ks[2::2]))
            ks = [ks[0]] + [x for p in pairs for x in p]
        memo[id(t)] = hashlib.sha1(repr((op, params, ks)).encode()).hexdigest()[:20]
    return memo[id(b)]


def result_key(env, r):
    """Canonical, comparable view of a service result."""
    from pysmt.fnode import FNode
    from pysmt.logics import Theory, Logic
    from pysmt.typing import PySMTType
    if isinstance(r, FNode):
        with env:
            from vf.checks.c09 import collapse_stores
            return ("formula", ac_key(collapse_stores(pys.decode(r))))
    if isinstance(r, (frozenset, set)):
        return ("set", tuple(sorted(repr(result_key(env, x)) for x in r)))
    if isinstance(r, (list, tuple)):
        return ("seq", tuple(result_key(env, x) for x in r))
    if isinstance(r, Theory):
        return ("theory", str(r))
    if isinstance(r, Logic):
        return ("logic", r.name, r.quantifier_free, str(r.theory))
    if isinstance(r, PySMTType):
        return ("type", repr(pys.from_ptype(r)))
    if isinstance(r, str):
        return ("text", re.sub(r"\b(FV|ack|__[A-Za-z_]*)\d+\b", r"\1#", r))
    return ("value", repr(r))


# ---------------------------------------------------------------- services

def _subst_map(env, data):
    return {pys.build(env, k): pys.build(env, v) for (k, v) in data}


def svc_parse_print(env, f, data):
    from pysmt.smtlib.script import smtlibscript_from_formula
    from pysmt.smtlib.parser import SmtLibParser
    buf = StringIO()
    smtlibscript_from_formula(f).serialize(buf, daggify=bool(data))
    return SmtLibParser(env).get_script(StringIO(buf.getvalue())).get_last_formula()


def svc_hr_roundtrip(env, f, data):
    from pysmt.parsing import HRParser
    return HRParser(env).parse(f.serialize())


def svc_script_declarations(env, f):
    from pysmt.smtlib.script import smtlibscript_from_formula
    import pysmt.smtlib.commands as smtcmd
    sc = smtlibscript_from_formula(f)
    out = []
    for c in sc.commands:
        if c.name == smtcmd.DECLARE_SORT:
            out.append("sort " + c.args[0].name)
        elif c.name in (smtcmd.DECLARE_FUN, smtcmd.DECLARE_CONST):
            out.append("fun " + c.args[0].symbol_name())
    return "\n".join(out)


def _rw():
    import pysmt.rewritings as rw
    return rw


SERVICES = {
    "get_type": lambda env, f, d: env.stc.get_type(f),
    "simplify": lambda env, f, d: env.simplifier.simplify(f),
    "substitute": lambda env, f, d: env.substituter.substitute(f, _subst_map(env, d)),
    "free_vars": lambda env, f, d: env.fvo.get_free_variables(f),
    "atoms": lambda env, f, d: env.ao.get_atoms(f),
    "is_qf": lambda env, f, d: env.qfo.is_qf(f),
    "get_types": lambda env, f, d: frozenset(env.typeso.get_types(f)),
    "theory": lambda env, f, d: env.theoryo.get_theory(f),
    "logic": lambda env, f, d: __import__("pysmt.oracles", fromlist=["get_logic"]).get_logic(f, env),
    "size": lambda env, f, d: env.sizeo.get_size(f, d),
    "to_smtlib": lambda env, f, d: __import__("pysmt.smtlib.printers", fromlist=["to_smtlib"]).to_smtlib(f, daggify=bool(d)),
    "serialize": lambda env, f, d: env.serializer.serialize(f),
    # the order in which a script declares sorts and symbols (a list: the order is part of the printed text)
    "script_declarations": lambda env, f, d: svc_script_declarations(env, f),
    "parse_print": svc_parse_print,
    "hr_roundtrip": svc_hr_roundtrip,
    "nnf": lambda env, f, d: _rw().nnf(f, env),
    "cnf": lambda env, f, d: _rw().cnf(f, env),
    "prenex": lambda env, f, d: _rw().prenex_normal_form(f, env),
    "aig": lambda env, f, d: _rw().aig(f, env),
    "ackermann": lambda env, f, d: _rw().Ackermannizer(env).do_ackermannization(f),
    "propagate_toplevel": lambda env, f, d: _rw().propagate_toplevel(f, env),
    "qelim_shannon": lambda env, f, d: __import__("pysmt.solvers.qelim", fromlist=["x"]).ShannonQuantifierEliminator(env).eliminate_quantifiers(f),
}
# services that create no fresh symbol: a repeated call must return the very same object
IDEMPOTENT_OBJECT = {"simplify", "substitute", "nnf", "aig", "parse_print", "free_vars", "atoms"}
BOOL_ONLY = {"atoms", "nnf", "cnf", "prenex", "aig", "ackermann", "propagate_toplevel", "parse_print", "qelim_shannon",
             "script_declarations"}


def run_call(env, call, cache=None):
    """Execute (service, formula bp, data) in env.  -> ('ok', raw result) | ('raised', exception type name)"""
    name, fbp, data = call
    with env:
        try:
            f = pys.build(env, fbp)
        except Exception as e:
            return ("raised-build", type(e).__name__)
        try:
            return ("ok", SERVICES[name](env, f, data))
        except Exception as e:
            return ("raised", type(e).__name__)


def outcome_key(env, out, call=None):
    if out[0] == "ok":
        if call is not None and call[0] == "to_smtlib":
            # the let numbering follows the (object-id) order of array-value arguments: compare what the text denotes
            try:
                from vf import smtref
                from vf.refsem import sorts_of_type, all_symbols
                from vf.checks.c09 import collapse_stores
                fbp = call[1]
                decls = {n: t for (n, t) in reffv(fbp)}
                xs = set()
                for (_, t) in all_symbols(fbp):
                    sorts_of_type(t, xs)
                for x in subterms(fbp):
                    if x[0] == "ARRAY_VALUE":
                        sorts_of_type(x[1][0], xs)
                tb = smtref.read_term(out[1], decls, strict=False, extra_sorts=xs)
                return ("ok", ("smtlib-denotes", ac_key(collapse_stores(tb))))
            except Exception:
                pass
        return ("ok", result_key(env, out[1]))
    return out


# ---------------------------------------------------------------- generation of related formulas and calls

def related_formulas(g, probe):
    """Formulas sharing sub-DAGs with the probe: sub-terms, super-terms, siblings."""
    out = []
    subs = [s for s in subterms(probe) if s[2]]
    for s in g.rnd.sample(subs, min(3, len(subs))):
        out.append(s)
    try:
        t = reftype(probe)
    except IllTyped:
        return out
    if t == BOOL:
        other = g.term(BOOL, 2)
        out.append(("AND", (), (probe, other)))
        out.append(("NOT", (), (probe,)))
        out.append(("OR", (), (other, probe, other)))
        out.append(("ITE", (), (other, probe, ("NOT", (), (probe,)))))
    elif t in (INT, REAL):
        other = g.term(t, 2)
        out.append(("PLUS", (), (probe, other)))
        out.append(("LE", (), (other, probe)))
    elif is_bv(t):
        other = g.term(t, 2)
        out.append(("BV_ADD", (), (probe, other)))
        out.append(("BV_ULT", (), (other, probe)))
    else:
        out.append(("EQUALS", (), (probe, g.term(t, 1))))
    return out


def random_call(g, f, forced=None):
    """A service call on blueprint f with generated arguments."""
    try:
        t = reftype(f)
    except IllTyped:
        t = None
    names = [n for n in SERVICES if (t == BOOL or n not in BOOL_ONLY)]
    name = forced or g.choice(names)
    data = None
    if name == "substitute":
        fv = sorted((s for s in reffv(f) if not is_fun(s[1])), key=repr)
        data = []
        for s in g.rnd.sample(fv, min(len(fv), g.rnd.randint(0, 2))):
            data.append((sym(*s), g.term(s[1], 1)))
        data = tuple(data)
    elif name == "size":
        data = g.rnd.choice([None, 0, 1, 2, 3, 4, 5])       # None = the default measure
    elif name in ("to_smtlib", "parse_print"):
        data = g.rnd.randrange(2)
    return (name, f, data)
