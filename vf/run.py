"""Entry point:  python -m vf.run <ID> [quick|thorough] [--replay <path>]"""
import importlib
import os
import sys
import traceback


def main(argv):
    if not argv:
        print("usage: check <ID> [quick|thorough] [--replay path]")
        return 2
    pid = argv[0].upper()
    tier = None
    replay = None
    i = 1
    while i < len(argv):
        if argv[i] == "--replay":
            replay = argv[i + 1]
            i += 2
        else:
            tier = argv[i]
            i += 1
    if tier:
        os.environ["VERIF_TIER"] = tier
    os.environ.setdefault("VERIF_TIER", "quick")
    try:
        mod = importlib.import_module("vf.checks.%s" % pid.lower())
        if replay:
            from vf.harness import load_replay
            return mod.replay(load_replay(replay))
        return mod.main()
    except SystemExit:
        raise
    except BaseException:
        traceback.print_exc()
        print("HARNESS-ERROR property=%s (exit 2; not a violation)" % pid)
        return 2


if __name__ == "__main__":
    sys.exit(main(sys.argv[1:]))
