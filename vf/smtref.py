"""Independent SMT-LIB 2.6 reader: lexer, S-expression reader, strict elaborator to blueprints.

Does NOT import pysmt.  Used as the oracle for C07 / C08 and as the front end of the
reference solver (C17 / C19).

    read_script(text, strict=True) -> Script   (list of elaborated commands)
    IllFormed(reason_class, message)
"""
from fractions import Fraction
import re

from vf.bp import (BOOL, INT, REAL, STRING, BV, ARR, SORT, FUN, is_bv, is_arr, is_sort, is_fun, const, sym,
                   app, subterms)
from vf.refsem import reftype, IllTyped, reffv


class IllFormed(Exception):
    def __init__(self, cls, msg=""):
        Exception.__init__(self, "%s: %s" % (cls, msg))
        self.cls = cls


# ---------------------------------------------------------------- lexer

class Atom(object):
    __slots__ = ("kind", "val")

    def __init__(self, kind, val):
        self.kind, self.val = kind, val

    def __repr__(self):
        return "%s:%r" % (self.kind, self.val)


SIMPLE = set("abcdefghijklmnopqrstuvwxyzABCDEFGHIJKLMNOPQRSTUVWXYZ0123456789~!@$%^&*_-+=<>.?/")
RESERVED = {"!", "_", "as", "BINARY", "DECIMAL", "exists", "HEXADECIMAL", "forall", "let", "match", "NUMERAL", "par",
            "STRING", "assert", "check-sat", "check-sat-assuming", "declare-const", "declare-datatype",
            "declare-datatypes", "declare-fun", "declare-sort", "define-fun", "define-fun-rec", "define-funs-rec",
            "define-sort", "echo", "exit", "get-assertions", "get-assignment", "get-info", "get-model", "get-option",
            "get-proof", "get-unsat-assumptions", "get-unsat-core", "get-value", "pop", "push", "reset",
            "reset-assertions", "set-info", "set-logic", "set-option"}


def lex(text):
    toks = []
    i, n = 0, len(text)
    while i < n:
        c = text[i]
        if c in " \t\r\n":
            i += 1
        elif c == ";":
            # a comment ends at a line-break character (line feed or carriage return)
            while i < n and text[i] not in "\n\r":
                i += 1
        elif c == "(" or c == ")":
            toks.append(c)
            i += 1
        elif c == '"':
            j = i + 1
            buf = []
            while True:
                if j >= n:
                    raise IllFormed("lexical", "unterminated string literal")
                if text[j] == '"':
                    if j + 1 < n and text[j + 1] == '"':
                        buf.append('"')
                        j += 2
                        continue
                    break
                buf.append(text[j])
                j += 1
            if any(not (0x20 <= ord(ch) <= 0x7E) for ch in buf):
                # Strings theory: the string constants are the literals made of printable ASCII (others: \\u{X})
                raise IllFormed("string-literal-character", "character outside 0x20-0x7E in a string literal")
            toks.append(Atom("str", "".join(buf)))
            i = j + 1
        elif c == "|":
            j = text.find("|", i + 1)
            if j < 0:
                raise IllFormed("lexical", "unterminated quoted symbol")
            body = text[i + 1:j]
            if "\\" in body:
                raise IllFormed("lexical", "backslash inside a quoted symbol")
            toks.append(Atom("qsym", body))
            i = j + 1
        elif c == "#":
            if text.startswith("#b", i):
                j = i + 2
                while j < n and text[j] in "01":
                    j += 1
                if j == i + 2:
                    raise IllFormed("lexical", "empty binary literal")
                toks.append(Atom("bin", text[i + 2:j]))
                i = j
            elif text.startswith("#x", i):
                j = i + 2
                while j < n and text[j] in "0123456789abcdefABCDEF":
                    j += 1
                if j == i + 2:
                    raise IllFormed("lexical", "empty hex literal")
                toks.append(Atom("hex", text[i + 2:j]))
                i = j
            else:
                raise IllFormed("lexical", "stray #")
            if i < n and text[i] in SIMPLE:
                raise IllFormed("lexical", "garbage after literal")
        elif c == ":":
            j = i + 1
            while j < n and text[j] in SIMPLE:
                j += 1
            if j == i + 1:
                raise IllFormed("lexical", "empty keyword")
            toks.append(Atom("kw", text[i:j]))
            i = j
        elif c in SIMPLE:
            j = i
            while j < n and text[j] in SIMPLE:
                j += 1
            w = text[i:j]
            if re.fullmatch(r"0|[1-9][0-9]*", w):
                toks.append(Atom("num", int(w)))
            elif re.fullmatch(r"(0|[1-9][0-9]*)\.[0-9]+", w):
                toks.append(Atom("dec", Fraction(w)))
            elif w[0].isdigit():
                raise IllFormed("lexical", "symbol starting with a digit: %r" % w)
            else:
                toks.append(Atom("sym", w))
            i = j
        else:
            raise IllFormed("lexical", "illegal character %r" % c)
    return toks


def read_all(text):
    toks = lex(text)
    pos = [0]

    def read():
        if pos[0] >= len(toks):
            raise IllFormed("syntax", "unexpected end of input")
        t = toks[pos[0]]
        pos[0] += 1
        if t == "(":
            lst = []
            while True:
                if pos[0] >= len(toks):
                    raise IllFormed("syntax", "unbalanced parenthesis (end of input inside a list)")
                if toks[pos[0]] == ")":
                    pos[0] += 1
                    return lst
                lst.append(read())
                x = lst[-1]
                if len(lst) > 1 and isinstance(x, Atom) and x.kind == "sym" and x.val in RESERVED:
                    # a reserved word is not a symbol: it may only open a list (|let| is a symbol, let is not)
                    raise IllFormed("reserved-word-as-symbol", "reserved word %r used as a symbol" % x.val)
        if t == ")":
            raise IllFormed("syntax", "unbalanced parenthesis")
        return t
    out = []
    while pos[0] < len(toks):
        out.append(read())
    return out


def is_sym(x, name=None):
    return isinstance(x, Atom) and x.kind in ("sym", "qsym") and (name is None or (x.val == name and x.kind == "sym"))


def decode_string_literal(s):
    """Value of a string literal under the Strings theory: \\u{X..} and \\uXXXX escapes."""
    def rep(m):
        h = m.group(1) or m.group(2)
        return chr(int(h, 16))
    return re.sub(r"\\u\{([0-9a-fA-F]{1,5})\}|\\u([0-9a-fA-F]{4})", rep, s)


# ---------------------------------------------------------------- elaboration

CHAINABLE = {"<": "LT", "<=": "LE", ">": "GT", ">=": "GE"}
BV_BIN = {"bvand": "BV_AND", "bvor": "BV_OR", "bvxor": "BV_XOR", "bvadd": "BV_ADD", "bvsub": "BV_SUB",
          "bvmul": "BV_MUL", "bvudiv": "BV_UDIV", "bvurem": "BV_UREM", "bvshl": "BV_LSHL", "bvlshr": "BV_LSHR",
          "bvashr": "BV_ASHR", "bvsdiv": "BV_SDIV", "bvsrem": "BV_SREM", "bvsmod": "BV_SMOD", "bvcomp": "BV_COMP",
          "concat": "BV_CONCAT"}
BV_LEFT_ASSOC = {"bvand", "bvor", "bvadd", "bvmul", "bvxor"}
BV_REL = {"bvult": ("BV_ULT", False), "bvule": ("BV_ULE", False), "bvugt": ("BV_ULT", True), "bvuge": ("BV_ULE", True),
          "bvslt": ("BV_SLT", False), "bvsle": ("BV_SLE", False), "bvsgt": ("BV_SLT", True), "bvsge": ("BV_SLE", True)}
BV_NEGATED = {"bvnand": "BV_AND", "bvnor": "BV_OR", "bvxnor": "BV_XOR"}
STR_OPS = {"str.len": "STR_LENGTH", "str.at": "STR_CHARAT", "str.substr": "STR_SUBSTR", "str.prefixof": "STR_PREFIXOF",
           "str.suffixof": "STR_SUFFIXOF", "str.contains": "STR_CONTAINS", "str.indexof": "STR_INDEXOF",
           "str.replace": "STR_REPLACE", "str.to_int": "STR_TO_INT", "str.from_int": "INT_TO_STR"}
LEGACY = {"str.to.int": "STR_TO_INT", "int.to.str": "INT_TO_STR"}

THEORY_SYMBOLS = (set(CHAINABLE) | set(BV_BIN) | set(BV_REL) | set(BV_NEGATED) | set(STR_OPS) |
                  {"true", "false", "not", "and", "or", "xor", "=>", "=", "distinct", "ite", "+", "-", "*", "/", "div",
                   "mod", "abs", "to_real", "to_int", "is_int", "bvnot", "bvneg", "select", "store", "str.++",
                   "bv2nat", "Int", "Real", "Bool", "String", "Array", "BitVec"})


class Scope(object):
    """Lexical scope: name -> ('bp', blueprint) | ('var', (internal name, type))"""

    def __init__(self, parent=None):
        self.parent = parent
        self.map = {}

    def get(self, n):
        s = self
        while s is not None:
            if n in s.map:
                return s.map[n]
            s = s.parent
        return None


class Elab(object):
    def __init__(self, strict=True, logic=None):
        self.strict = strict             # reject the pre-standard names str.to.int / int.to.str
        self.logic = logic
        self.sorts = {}                  # name -> arity
        self.sort_defs = {}              # name -> (params, sexpr)
        self.frames = [{}]               # declared symbols: name -> type
        self.def_frames = [{}]           # defined functions: name -> (params, ret, body bp)
        self.sort_frames = [set()]
        self.fresh = 0
        self.notes = []

    # ---- declarations
    def lookup_decl(self, n):
        for fr in reversed(self.frames):
            if n in fr:
                return fr[n]
        return None

    def lookup_def(self, n):
        for fr in reversed(self.def_frames):
            if n in fr:
                return fr[n]
        return None

    def check_new_name(self, n):
        if n in THEORY_SYMBOLS:
            raise IllFormed("redeclaration", "%r is a predefined symbol" % n)
        if self.lookup_decl(n) is not None or self.lookup_def(n) is not None:
            raise IllFormed("redeclaration", "symbol %r declared twice" % n)

    def declare(self, n, ty):
        self.check_new_name(n)
        self.frames[-1][n] = ty

    def define(self, n, params, ret, body):
        self.check_new_name(n)
        self.def_frames[-1][n] = (params, ret, body)

    def declare_sort(self, n, arity):
        if n in self.sorts or n in ("Int", "Real", "Bool", "String", "Array", "BitVec"):
            raise IllFormed("redeclaration", "sort %r declared twice" % n)
        self.sorts[n] = arity
        self.sort_frames[-1].add(n)

    def push(self, k=1):
        for _ in range(k):
            self.frames.append({})
            self.def_frames.append({})
            self.sort_frames.append(set())

    def pop(self, k=1):
        if k >= len(self.frames):
            raise IllFormed("stack", "pop below the first level")
        for _ in range(k):
            self.frames.pop()
            self.def_frames.pop()
            for s in self.sort_frames.pop():
                self.sorts.pop(s, None)
                self.sort_defs.pop(s, None)

    # ---- sorts
    def sort(self, sx, params=None):
        if is_sym(sx):
            n = sx.val
            if params and n in params:
                return params[n]
            if sx.kind == "sym":
                if n == "Bool":
                    return BOOL
                if n == "Int":
                    return INT
                if n == "Real":
                    return REAL
                if n == "String":
                    return STRING
            if n in self.sort_defs:
                ps, body = self.sort_defs[n]
                if ps:
                    raise IllFormed("sort", "sort %s needs arguments" % n)
                return self.sort(body)
            if n in self.sorts:
                if self.sorts[n] != 0:
                    raise IllFormed("sort", "sort %s needs arguments" % n)
                return SORT(n)
            raise IllFormed("undeclared-sort", n)
        if isinstance(sx, list) and sx:
            h = sx[0]
            if is_sym(h, "_") and len(sx) == 3 and is_sym(sx[1], "BitVec") and isinstance(sx[2], Atom) and sx[2].kind == "num":
                if sx[2].val <= 0:
                    raise IllFormed("sort", "BitVec width 0")
                return BV(sx[2].val)
            if is_sym(h, "Array") and len(sx) == 3:
                return ARR(self.sort(sx[1], params), self.sort(sx[2], params))
            if is_sym(h) and h.val in self.sort_defs:
                ps, body = self.sort_defs[h.val]
                if len(ps) != len(sx) - 1:
                    raise IllFormed("sort", "arity of %s" % h.val)
                return self.sort(body, dict(zip(ps, [self.sort(a, params) for a in sx[1:]])))
            if is_sym(h) and h.val in self.sorts:
                if self.sorts[h.val] != len(sx) - 1:
                    raise IllFormed("sort", "arity of %s" % h.val)
                args = [self.sort(a, params) for a in sx[1:]]
                from vf.bp import tystr
                return SORT("%s{%s}" % (h.val, ", ".join(tystr(a) for a in args)))
        raise IllFormed("sort", "cannot read sort %r" % (sx,))

    # ---- terms
    def numeral_type(self):
        """Numerals are Int, except in logics with Reals and without Ints."""
        lg = self.logic
        if lg is None:
            return INT
        core = lg[3:] if lg.startswith("QF_") else lg
        has_real = ("RA" in core) or ("RDL" in core)
        has_int = ("IA" in core) or ("IDL" in core) or ("IRA" in core) or ("SLIA" in core) or core in ("ALL",)
        if has_real and not has_int:
            return REAL
        return INT

    def mk(self, op, *ch, params=()):
        t = (op, tuple(params), tuple(ch))
        try:
            reftype(t)
        except IllTyped as e:
            raise IllFormed("ill-sorted", "%s: %s" % (op, e))
        return t

    def ty(self, bp):
        try:
            return reftype(bp)
        except IllTyped as e:
            raise IllFormed("ill-sorted", str(e))

    def term(self, sx, scope):
        if isinstance(sx, Atom):
            return self.atom(sx, scope)
        if not isinstance(sx, list) or not sx:
            raise IllFormed("syntax", "empty application")
        h = sx[0]
        if isinstance(h, list):
            return self.compound_head(h, sx[1:], scope)
        if not isinstance(h, Atom) or h.kind not in ("sym", "qsym"):
            raise IllFormed("syntax", "bad application head %r" % (h,))
        name = h.val
        if h.kind == "sym":
            if name == "let":
                return self.let(sx, scope)
            if name in ("forall", "exists"):
                return self.quantifier(sx, scope)
            if name == "!":
                if len(sx) < 4 and len(sx) != 2:
                    pass
                return self.term(sx[1], scope)
            if name == "_":
                return self.indexed_constant(sx)
            if name == "as":
                # (as identifier sort): the identifier, whose sort must be the given one
                if len(sx) != 3 or not (isinstance(sx[1], Atom) and sx[1].kind in ("sym", "qsym")):
                    raise IllFormed("syntax", "qualified identifier")
                v = self.atom(sx[1], scope)
                if self.ty(v) != self.sort(sx[2]):
                    raise IllFormed("ill-sorted", "(as %s ...) with another sort" % sx[1].val)
                return v
        # binders / locals first
        b = scope.get(name)
        args_sx = sx[1:]
        if b is not None:
            raise IllFormed("ill-sorted", "local %r applied to arguments" % name)
        d = self.lookup_def(name)
        if d is not None:
            return self.expand(name, d, [self.term(a, scope) for a in args_sx])
        t = self.lookup_decl(name)
        if t is not None:
            if not is_fun(t):
                raise IllFormed("ill-sorted", "constant %r applied to arguments" % name)
            args = [self.term(a, scope) for a in args_sx]
            return self.mk("FUNCTION", *args, params=(name, t))
        if h.kind == "qsym" and name not in THEORY_SYMBOLS:
            raise IllFormed("undeclared", "function %r" % name)
        args = [self.term(a, scope) for a in args_sx]
        return self.builtin(name, args)

    def atom(self, a, scope):
        if a.kind == "num":
            t = self.numeral_type()
            return const(t, a.val if t == INT else Fraction(a.val))
        if a.kind == "dec":
            return const(REAL, a.val)
        if a.kind == "bin":
            return const(BV(len(a.val)), int(a.val, 2))
        if a.kind == "hex":
            return const(BV(4 * len(a.val)), int(a.val, 16))
        if a.kind == "str":
            return const(STRING, decode_string_literal(a.val))
        if a.kind in ("sym", "qsym"):
            n = a.val
            b = scope.get(n)
            if b is not None:
                return b[1] if b[0] == "bp" else sym(*b[1])
            d = self.lookup_def(n)
            if d is not None:
                return self.expand(n, d, [])
            t = self.lookup_decl(n)
            if t is not None:
                if is_fun(t):
                    raise IllFormed("ill-sorted", "function symbol %r used as a term" % n)
                return sym(n, t)
            if a.kind == "sym" and n == "true":
                return const(BOOL, True)
            if a.kind == "sym" and n == "false":
                return const(BOOL, False)
            raise IllFormed("undeclared", "symbol %r" % n)
        raise IllFormed("syntax", "unexpected token %r" % (a,))

    def expand(self, name, d, args):
        params, ret, body = d
        if len(params) != len(args):
            raise IllFormed("ill-sorted", "%s expects %d arguments" % (name, len(params)))
        for (pn, pt), a in zip(params, args):
            if self.ty(a) != pt:
                raise IllFormed("ill-sorted", "argument of %s" % name)
        if not params:
            return body
        m = {("SYMBOL", p, ()): a for p, a in zip(params, args)}
        memo = {}

        def go(t):
            k = id(t)
            if k in memo and memo[k][0] is t:
                return memo[k][1]
            if t[0] == "SYMBOL" and t in m:
                r = m[t]
            elif not t[2]:
                r = t
            else:
                ch = tuple(go(c) for c in t[2])
                r = t if all(a is b for a, b in zip(ch, t[2])) else (t[0], t[1], ch)
            memo[k] = (t, r)
            return r
        return go(body)

    def let(self, sx, scope):
        if len(sx) != 3 or not isinstance(sx[1], list):
            raise IllFormed("syntax", "let")
        inner = Scope(scope)
        seen = set()
        for b in sx[1]:
            if not (isinstance(b, list) and len(b) == 2 and is_sym(b[0])):
                raise IllFormed("syntax", "let binding")
            if b[0].val in seen:
                raise IllFormed("syntax", "let binds %r twice" % b[0].val)
            seen.add(b[0].val)
            # parallel let: every bound term is read in the OUTER scope
            inner.map[b[0].val] = ("bp", self.term(b[1], scope))
        if not sx[1]:
            raise IllFormed("syntax", "empty let")
        return self.term(sx[2], inner)

    def fresh_name(self, base):
        self.fresh += 1
        return "%s!%d" % (base, self.fresh)

    def quantifier(self, sx, scope):
        if len(sx) != 3 or not isinstance(sx[1], list) or not sx[1]:
            raise IllFormed("syntax", "quantifier")
        inner = Scope(scope)
        vs = []
        for b in sx[1]:
            if not (isinstance(b, list) and len(b) == 2 and is_sym(b[0])):
                raise IllFormed("syntax", "sorted variable")
            t = self.sort(b[1])
            v = (self.fresh_name(b[0].val), t)
            inner.map[b[0].val] = ("var", v)
            vs.append(v)
        body = self.term(sx[2], inner)
        op = "FORALL" if sx[0].val == "forall" else "EXISTS"
        return self.mk(op, body, params=tuple(vs))

    def indexed_constant(self, sx):
        # (_ bvN w)
        if len(sx) == 3 and is_sym(sx[1]) and re.fullmatch(r"bv(0|[1-9][0-9]*)", sx[1].val) and \
                isinstance(sx[2], Atom) and sx[2].kind == "num":
            v, w = int(sx[1].val[2:]), sx[2].val
            if w <= 0 or v >= (1 << w):
                raise IllFormed("ill-sorted", "bv constant out of range")
            return const(BV(w), v)
        raise IllFormed("unsupported", "indexed identifier %r" % (sx,))

    def compound_head(self, h, args_sx, scope):
        # ((_ op i ...) t)   or   ((as const S) t)
        if h and is_sym(h[0], "_") and len(h) >= 3 and is_sym(h[1]):
            name = h[1].val
            idx = []
            for x in h[2:]:
                if not (isinstance(x, Atom) and x.kind == "num"):
                    raise IllFormed("syntax", "index must be a numeral")
                idx.append(x.val)
            args = [self.term(a, scope) for a in args_sx]
            if name == "extract" and len(idx) == 2 and len(args) == 1:
                return self.mk("BV_EXTRACT", args[0], params=(idx[1], idx[0]))
            one = {"rotate_left": "BV_ROL", "rotate_right": "BV_ROR", "zero_extend": "BV_ZEXT",
                   "sign_extend": "BV_SEXT", "repeat": "BV_REPEAT"}
            if name in one and len(idx) == 1 and len(args) == 1:
                return self.mk(one[name], args[0], params=(idx[0],))
            raise IllFormed("unsupported", "indexed operator %s" % name)
        if h and is_sym(h[0], "as") and len(h) == 3 and is_sym(h[1], "const"):
            t = self.sort(h[2])
            if not is_arr(t) or len(args_sx) != 1:
                raise IllFormed("ill-sorted", "(as const) needs an array sort and one argument")
            v = self.term(args_sx[0], scope)
            if self.ty(v) != t[2]:
                raise IllFormed("ill-sorted", "(as const) element sort")
            return self.mk("ARRAY_VALUE", v, params=(t[1],))
        raise IllFormed("unsupported", "application head %r" % (h,))

    def left_assoc(self, op, args):
        r = args[0]
        for a in args[1:]:
            r = self.mk(op, r, a)
        return r

    def builtin(self, name, a):
        n = len(a)
        if name == "not" and n == 1:
            return self.mk("NOT", a[0])
        if name in ("and", "or") and n >= 1:
            if n == 1:
                if self.ty(a[0]) != BOOL:
                    raise IllFormed("ill-sorted", name)
                raise IllFormed("arity", "%s needs at least two arguments" % name)
            return self.mk(name.upper(), *a)
        if name == "xor" and n >= 2:
            return self.left_assoc("XOR", a)
        if name == "=>" and n >= 2:
            r = a[-1]
            for x in reversed(a[:-1]):
                r = self.mk("IMPLIES", x, r)
            return r
        if name == "=" and n >= 2:
            parts = [self.mk("EQ", x, y) for x, y in zip(a, a[1:])]
            return parts[0] if len(parts) == 1 else self.mk("AND", *parts)
        if name == "distinct" and n >= 2:
            return self.mk("DISTINCT", *a)
        if name == "ite" and n == 3:
            return self.mk("ITE", *a)
        if name in ("+", "*") and n >= 2:
            return self.mk("PLUS" if name == "+" else "TIMES", *a)
        if name == "-" and n == 1:
            return self.mk("NEG", a[0])
        if name == "-" and n >= 2:
            return self.left_assoc("MINUS", a)
        if name == "/" and n >= 2:
            if all(x[0] == "CONST" and x[1][0] == INT for x in a):
                # (/ m n) over numerals is the customary spelling of a rational constant also where numerals
                # are of sort Int (the mixed-arithmetic logics describe it as an abbreviation)
                a = [self.mk("TOREAL", x) for x in a]
            return self.left_assoc("REAL_DIV", a)
        if name == "div" and n >= 2:
            return self.left_assoc("INT_DIV", a)
        if name == "mod" and n == 2:
            return self.mk("INT_MOD", *a)
        if name == "abs" and n == 1:
            return self.mk("ABS", a[0])
        if name == "to_real" and n == 1:
            return self.mk("TOREAL", a[0])
        if name == "to_int" and n == 1:
            return self.mk("TO_INT", a[0])
        if name == "is_int" and n == 1:
            return self.mk("IS_INT", a[0])
        if name in CHAINABLE and n >= 2:
            parts = []
            for x, y in zip(a, a[1:]):
                if name == "<":
                    parts.append(self.mk("LT", x, y))
                elif name == "<=":
                    parts.append(self.mk("LE", x, y))
                elif name == ">":
                    parts.append(self.mk("LT", y, x))
                else:
                    parts.append(self.mk("LE", y, x))
            return parts[0] if len(parts) == 1 else self.mk("AND", *parts)
        if name == "bvnot" and n == 1:
            return self.mk("BV_NOT", a[0])
        if name == "bvneg" and n == 1:
            return self.mk("BV_NEG", a[0])
        if name == "bv2nat" and n == 1:
            return self.mk("BV_TONATURAL", a[0])
        if name in BV_BIN:
            if n == 2:
                return self.mk(BV_BIN[name], *a)
            if n > 2 and (name in BV_LEFT_ASSOC or name == "concat"):
                return self.left_assoc(BV_BIN[name], a)
            raise IllFormed("arity", name)
        if name in BV_REL and n == 2:
            o, swap = BV_REL[name]
            return self.mk(o, a[1], a[0]) if swap else self.mk(o, a[0], a[1])
        if name in BV_NEGATED and n == 2:
            return self.mk("BV_NOT", self.mk(BV_NEGATED[name], *a))
        if name == "select" and n == 2:
            return self.mk("ARRAY_SELECT", *a)
        if name == "store" and n == 3:
            return self.mk("ARRAY_STORE", *a)
        if name == "str.++" and n >= 2:
            return self.mk("STR_CONCAT", *a)
        if name in STR_OPS:
            return self.mk(STR_OPS[name], *a)
        if name in LEGACY:
            if self.strict:
                raise IllFormed("legacy-name", "%s is not an SMT-LIB 2.6 symbol" % name)
            self.notes.append("legacy-name:" + name)
            return self.mk(LEGACY[name], *a)
        if name in THEORY_SYMBOLS:
            raise IllFormed("arity", "%s applied to %d arguments" % (name, n))
        raise IllFormed("undeclared", "function %r" % name)


# ---------------------------------------------------------------- scripts

class Script(object):
    def __init__(self):
        self.commands = []          # (name, payload...)
        self.elab = None

    def assertions(self):
        """Live assertions at the end of the script (SMT-LIB assertion-stack semantics)."""
        stack = [[]]
        for c in self.commands:
            if c[0] == "assert":
                stack[-1].append(c[1])
            elif c[0] == "push":
                for _ in range(c[1]):
                    stack.append([])
            elif c[0] == "pop":
                for _ in range(c[1]):
                    stack.pop()
            elif c[0] == "reset-assertions":
                stack = [[]]
        return [a for fr in stack for a in fr]


def numeral_arg(cmd, default=1):
    if len(cmd) == 1:
        return default
    if len(cmd) == 2 and isinstance(cmd[1], Atom) and cmd[1].kind == "num":
        return cmd[1].val
    raise IllFormed("syntax", "%s expects a numeral" % cmd[0].val)


def read_script(text, strict=True, elab=None):
    sc = Script()
    el = elab or Elab(strict=strict)
    sc.elab = el
    for cmd in read_all(text):
        run_command(sc, el, cmd)
    return sc


def run_command(sc, el, cmd):
    if not (isinstance(cmd, list) and cmd and is_sym(cmd[0]) and cmd[0].kind == "sym"):
        raise IllFormed("syntax", "command expected, got %r" % (cmd,))
    name = cmd[0].val
    top = Scope()
    if name == "set-logic":
        if len(cmd) != 2 or not is_sym(cmd[1]):
            raise IllFormed("syntax", "set-logic")
        el.logic = cmd[1].val
        sc.commands.append(("set-logic", cmd[1].val))
    elif name in ("set-option", "set-info", "get-info", "get-option", "echo"):
        sc.commands.append((name, cmd[1:]))
    elif name == "declare-sort":
        if len(cmd) not in (2, 3) or not is_sym(cmd[1]):
            raise IllFormed("syntax", "declare-sort")
        ar = cmd[2].val if len(cmd) == 3 else 0
        el.declare_sort(cmd[1].val, ar)
        sc.commands.append(("declare-sort", cmd[1].val, ar))
    elif name == "define-sort":
        if len(cmd) != 4 or not is_sym(cmd[1]) or not isinstance(cmd[2], list):
            raise IllFormed("syntax", "define-sort")
        if cmd[1].val in el.sorts or cmd[1].val in el.sort_defs:
            raise IllFormed("redeclaration", "sort %s" % cmd[1].val)
        el.sort_defs[cmd[1].val] = ([p.val for p in cmd[2]], cmd[3])
        el.sort_frames[-1].add(cmd[1].val)
        sc.commands.append(("define-sort", cmd[1].val))
    elif name == "declare-fun":
        if len(cmd) != 4 or not is_sym(cmd[1]) or not isinstance(cmd[2], list):
            raise IllFormed("syntax", "declare-fun")
        ps = [el.sort(s) for s in cmd[2]]
        r = el.sort(cmd[3])
        t = FUN(r, ps) if ps else r
        el.declare(cmd[1].val, t)
        sc.commands.append(("declare-fun", cmd[1].val, t))
    elif name == "declare-const":
        if len(cmd) != 3 or not is_sym(cmd[1]):
            raise IllFormed("syntax", "declare-const")
        t = el.sort(cmd[2])
        el.declare(cmd[1].val, t)
        sc.commands.append(("declare-fun", cmd[1].val, t))
    elif name == "define-fun":
        if len(cmd) != 5 or not is_sym(cmd[1]) or not isinstance(cmd[2], list):
            raise IllFormed("syntax", "define-fun")
        inner = Scope(top)
        params = []
        for b in cmd[2]:
            if not (isinstance(b, list) and len(b) == 2 and is_sym(b[0])):
                raise IllFormed("syntax", "sorted variable")
            t = el.sort(b[1])
            p = (el.fresh_name(b[0].val), t)
            inner.map[b[0].val] = ("var", p)
            params.append(p)
        r = el.sort(cmd[3])
        body = el.term(cmd[4], inner)
        if el.ty(body) != r:
            raise IllFormed("ill-sorted", "define-fun body sort")
        el.define(cmd[1].val, params, r, body)
        sc.commands.append(("define-fun", cmd[1].val, params, r, body))
    elif name == "assert":
        if len(cmd) != 2:
            raise IllFormed("syntax", "assert")
        t = el.term(cmd[1], top)
        if el.ty(t) != BOOL:
            raise IllFormed("ill-sorted", "assert needs a Bool term")
        sc.commands.append(("assert", t))
    elif name == "push":
        k = numeral_arg(cmd)
        el.push(k)
        sc.commands.append(("push", k))
    elif name == "pop":
        k = numeral_arg(cmd)
        el.pop(k)
        sc.commands.append(("pop", k))
    elif name == "reset-assertions":
        # SMT-LIB 2.6: removes every level beyond the first, all assertions, and all declarations / definitions
        # (unless :global-declarations is set, which is not modelled)
        while len(el.frames) > 1:
            el.pop(1)
        el.frames[0].clear()
        el.def_frames[0].clear()
        for srt in el.sort_frames[0]:
            el.sorts.pop(srt, None)
            el.sort_defs.pop(srt, None)
        el.sort_frames[0].clear()
        sc.commands.append(("reset-assertions",))
    elif name in ("check-sat", "get-model", "get-assertions", "get-proof", "get-unsat-core", "get-assignment",
                  "exit", "reset", "get-unsat-assumptions"):
        if len(cmd) != 1:
            raise IllFormed("syntax", name)
        sc.commands.append((name,))
    elif name == "get-value":
        if len(cmd) != 2 or not isinstance(cmd[1], list) or not cmd[1]:
            raise IllFormed("syntax", "get-value")
        sc.commands.append(("get-value", [el.term(t, top) for t in cmd[1]]))
    elif name == "check-sat-assuming":
        sc.commands.append(("check-sat-assuming", [el.term(t, top) for t in cmd[1]]))
    else:
        raise IllFormed("unknown-command", name)


def read_term(text, decls, logic=None, strict=True, extra_sorts=()):
    """Elaborate one term; decls: name -> type ; sorts are implied by the types (+ extra_sorts)."""
    el = Elab(strict=strict, logic=logic)
    from vf.refsem import sorts_of_type
    acc = set(extra_sorts)
    for n, t in decls.items():
        sorts_of_type(t, acc)
    for s in acc:
        if "{" in s:
            base, rest = s.split("{", 1)
            args = [a.strip() for a in rest[:-1].split(",")]
            el.sorts[base] = len(args)
            for a in args:
                if a not in ("Int", "Real", "Bool", "String"):
                    el.sorts[a] = 0
        else:
            el.sorts[s] = 0
    for n, t in decls.items():
        el.frames[0][n] = t
    sx = read_all(text)
    if len(sx) != 1:
        raise IllFormed("syntax", "exactly one term expected, got %d" % len(sx))
    return el.term(sx[0], Scope())
