"""Blueprints: the generated values are plain data, not FNodes.

Type language
    "Bool" | "Int" | "Real" | "String" | ("BV", w) | ("Array", idx, elem)
    | ("Sort", name) | ("Fun", ret, (p1, ..., pn))

Term language   (op, params, children)
    ("SYMBOL", (name, ty), ())
    ("CONST", (ty, value), ())          value: bool | int | Fraction | str
    ("FUNCTION", (name, funty), args)
    ("FORALL"|"EXISTS", ((name, ty), ...), (body,))
    ("ARRAY_VALUE", (idx_ty,), (default, k1, v1, ...))
    ("BV_EXTRACT", (start, end), (x,))
    ("BV_ROL"|"BV_ROR"|"BV_ZEXT"|"BV_SEXT", (k,), (x,))
    (OPNAME, (), children)              for every other operator

This module does not import pysmt.
"""
from fractions import Fraction
import hashlib
import json

BOOL, INT, REAL, STRING = "Bool", "Int", "Real", "String"


def BV(w):
    return ("BV", w)


def ARR(i, e):
    return ("Array", i, e)


def SORT(n):
    return ("Sort", n)


def FUN(ret, params):
    return ("Fun", ret, tuple(params))


def is_bv(t):
    return isinstance(t, tuple) and t[0] == "BV"


def is_arr(t):
    return isinstance(t, tuple) and t[0] == "Array"


def is_sort(t):
    return isinstance(t, tuple) and t[0] == "Sort"


def is_fun(t):
    return isinstance(t, tuple) and t[0] == "Fun"


def tystr(t):
    if isinstance(t, str):
        return t
    if t[0] == "BV":
        return "BV%d" % t[1]
    if t[0] == "Array":
        return "A_%s_%s_" % (tystr(t[1]), tystr(t[2]))
    if t[0] == "Sort":
        return t[1]
    if t[0] == "Fun":
        return "F_%s__%s_" % (tystr(t[1]), "_".join(tystr(p) for p in t[2]))
    raise ValueError(t)


def sym(name, ty):
    return ("SYMBOL", (name, ty), ())


def const(ty, v):
    if ty == REAL and not isinstance(v, Fraction):
        v = Fraction(v)
    return ("CONST", (ty, v), ())


def app(op, *children, params=()):
    return (op, tuple(params), tuple(children))


TRUE = const(BOOL, True)
FALSE = const(BOOL, False)


def subterms(bp, acc=None, seen=None):
    """All sub-blueprints (post-order, distinct by value)."""
    if acc is None:
        acc, seen = [], set()
    if bp in seen:
        return acc
    seen.add(bp)
    for c in bp[2]:
        subterms(c, acc, seen)
    acc.append(bp)
    return acc


def size(bp):
    return len(subterms(bp))


def tree_size(bp, cap=10**6):
    n = 1
    for c in bp[2]:
        n += tree_size(c, cap)
        if n > cap:
            return n
    return n


def depth(bp):
    return 1 + max([depth(c) for c in bp[2]], default=0)


def ops_of(bp):
    return {s[0] for s in subterms(bp)}


# ---------------------------------------------------------------- JSON

def to_json(x):
    """Blueprints / values / dicts -> JSON-able structure (reversible)."""
    if isinstance(x, bool) or x is None or isinstance(x, str):
        return x
    if isinstance(x, int):
        return {"$i": str(x)} if abs(x) > 2**53 else x
    if isinstance(x, Fraction):
        return {"$q": [str(x.numerator), str(x.denominator)]}
    if isinstance(x, tuple):
        return {"$t": [to_json(e) for e in x]}
    if isinstance(x, list):
        return [to_json(e) for e in x]
    if isinstance(x, (set, frozenset)):
        return {"$s": sorted((to_json(e) for e in x), key=lambda j: json.dumps(j, sort_keys=True))}
    if isinstance(x, dict):
        return {"$d": [[to_json(k), to_json(v)] for k, v in x.items()]}
    if hasattr(x, "to_json"):
        return x.to_json()
    if isinstance(x, float):
        return {"$f": repr(x)}
    return {"$repr": repr(x)}


def from_json(j):
    if isinstance(j, list):
        return [from_json(e) for e in j]
    if isinstance(j, dict):
        if "$i" in j:
            return int(j["$i"])
        if "$q" in j:
            return Fraction(int(j["$q"][0]), int(j["$q"][1]))
        if "$t" in j:
            return tuple(from_json(e) for e in j["$t"])
        if "$s" in j:
            return frozenset(from_json(e) for e in j["$s"])
        if "$d" in j:
            return {from_json(k): from_json(v) for k, v in j["$d"]}
        if "$f" in j:
            return float(j["$f"])
        if "$arr" in j:
            from vf.refsem import ArrV
            return ArrV.from_json(j)
        if "$fun" in j:
            from vf.refsem import FunV
            return FunV.from_json(j)
        if "$repr" in j:
            return j["$repr"]
        return {k: from_json(v) for k, v in j.items()}
    return j


def bphash(x):
    return hashlib.sha1(json.dumps(to_json(x), sort_keys=True).encode()).hexdigest()[:16]


# ---------------------------------------------------------------- pretty

def show(bp, maxlen=400):
    s = _show(bp)
    if len(s) > maxlen:
        s = s[:maxlen] + "..."
    return s


def _showv(ty, v):
    if is_bv(ty):
        return "%d_%d" % (v, ty[1])
    if ty == REAL:
        return "%s.r" % (v,)
    if ty == STRING:
        return json.dumps(v)
    return repr(v)


def _show(bp):
    op, params, ch = bp
    if op == "SYMBOL":
        return "%s:%s" % (params[0], tystr(params[1]))
    if op == "CONST":
        return _showv(*params)
    if op == "FUNCTION":
        return "%s(%s)" % (params[0], ", ".join(_show(c) for c in ch))
    if op in ("FORALL", "EXISTS"):
        return "%s[%s].(%s)" % (op.lower(), ",".join("%s:%s" % (n, tystr(t)) for n, t in params), _show(ch[0]))
    if op == "ARRAY_VALUE":
        return "Array{%s}(%s)" % (tystr(params[0]), ", ".join(_show(c) for c in ch))
    p = ("[%s]" % ",".join(str(x) for x in params)) if params else ""
    return "%s%s(%s)" % (op, p, ", ".join(_show(c) for c in ch))
