"""Blueprints: the generated values are plain data, not FNodes.

Type language
    "Bool" | "Int" | "Real" | "String" | ("BV", w) | ("Array", idx, elem)
    | ("Sort", name) | ("Fun", ret, (p1, ..., pn))

Term language   (op, params, children)
    ("SYMBOL", (name, ty), ())
    ("CONST", (ty, value), ())          value: bool | int | Fraction | str
    ("FUNCTION", (name, funty), args)
    ("FORALL"|"EXISTS", ((name, ty), ...), (body,))
    ("ARRAY_VALUE", (idx_ty,), (default, k1, v1, ...))
    ("BV_EXTRACT", (start, end), (x,))
    ("BV_ROL"|"BV_ROR"|"BV_ZEXT"|"BV_SEXT", (k,), (x,))
    (OPNAME, (), children)              for every other operator

This module does not import pysmt.
"""
from fractions import Fraction
import hashlib
import json

BOOL, INT, REAL, STRING = "Bool", "Int", "Real", "String"


def BV(w):
    return ("BV", w)


def ARR(i, e):
    return ("Array", i, e)


def SORT(n):
    return ("Sort", n)


def FUN(ret, params):
    return ("Fun", ret, tuple(params))


def is_bv(t):
    return isinstance(t, tuple) and t[0] == "BV"


def is_arr(t):
    return isinstance(t, tuple) and t[0] == "Array"


def is_sort(t):
    return isinstance(t, tuple) and t[0] == "Sort"


def sort_args(t):
    """Argument sorts of an instance of a parametric sort: ("Sort", "P{S2, Int}") -> [("Sort", "S2"), "Int"]."""
    if not is_sort(t) or "{" not in t[1]:
        return []
    rest = t[1].split("{", 1)[1][:-1]
    parts, depth, cur = [], 0, ""
    for ch in rest:
        if ch == "," and depth == 0:
            parts.append(cur.strip())
            cur = ""
            continue
        depth += ch == "{"
        depth -= ch == "}"
        cur += ch
    parts.append(cur.strip())
    return [a if a in ("Int", "Real", "Bool", "String") else ("Sort", a) for a in parts]


def is_fun(t):
    return isinstance(t, tuple) and t[0] == "Fun"


def tystr(t):
    if isinstance(t, str):
        return t
    if t[0] == "BV":
        return "BV%d" % t[1]
    if t[0] == "Array":
        return "A_%s_%s_" % (tystr(t[1]), tystr(t[2]))
    if t[0] == "Sort":
        return t[1]
    if t[0] == "Fun":
        return "F_%s__%s_" % (tystr(t[1]), "_".join(tystr(p) for p in t[2]))
    raise ValueError(t)


def sym(name, ty):
    return ("SYMBOL", (name, ty), ())


def const(ty, v):
    if ty == REAL and not isinstance(v, Fraction):
        v = Fraction(v)
    return ("CONST", (ty, v), ())


def app(op, *children, params=()):
    return (op, tuple(params), tuple(children))


TRUE = const(BOOL, True)
FALSE = const(BOOL, False)


def subterms(bp):
    """All sub-blueprints, post-order, distinct by object identity (O(DAG), safe on heavily
    shared DAGs); equal-valued duplicates are removed afterwards only when that is cheap."""
    acc, seen = [], set()
    stack = [(bp, False)]
    while stack:
        t, done = stack.pop()
        if done:
            acc.append(t)
            continue
        if id(t) in seen:
            continue
        seen.add(id(t))
        stack.append((t, True))
        for c in reversed(t[2]):
            if id(c) not in seen:
                stack.append((c, False))
    if len(acc) <= 400:
        # small terms (generated inputs): also merge equal-valued copies
        out, vs = [], set()
        for t in acc:
            h = _dag_digest(t)
            if h not in vs:
                vs.add(h)
                out.append(t)
        return out
    return acc


_DIG = {}


def _dag_digest(bp):
    """Structural digest computed bottom-up with an identity memo (never expands the tree)."""
    memo = {}
    stack = [(bp, False)]
    while stack:
        t, done = stack.pop()
        if id(t) in memo:
            continue
        if not done:
            stack.append((t, True))
            for c in t[2]:
                if id(c) not in memo:
                    stack.append((c, False))
        else:
            h = hashlib.sha1(repr((t[0], _jparams(t[1]), tuple(memo[id(c)] for c in t[2]))).encode()).hexdigest()[:20]
            memo[id(t)] = h
    return memo[id(bp)]


def _jparams(p):
    return repr(p)


def size(bp):
    return len(subterms(bp))


def tree_size(bp, cap=10**6):
    n = 1
    for c in bp[2]:
        n += tree_size(c, cap)
        if n > cap:
            return n
    return n


def depth(bp):
    return 1 + max([depth(c) for c in bp[2]], default=0)


def ops_of(bp):
    return {s[0] for s in subterms(bp)}


# ---------------------------------------------------------------- JSON

def to_json(x):
    """Blueprints / values / dicts -> JSON-able structure (reversible)."""
    if isinstance(x, bool) or x is None or isinstance(x, str):
        return x
    if isinstance(x, int):
        return {"$i": str(x)} if abs(x) > 2**53 else x
    if isinstance(x, Fraction):
        return {"$q": [str(x.numerator), str(x.denominator)]}
    if isinstance(x, tuple):
        return {"$t": [to_json(e) for e in x]}
    if isinstance(x, list):
        return [to_json(e) for e in x]
    if isinstance(x, (set, frozenset)):
        return {"$s": sorted((to_json(e) for e in x), key=lambda j: json.dumps(j, sort_keys=True))}
    if isinstance(x, dict):
        return {"$d": [[to_json(k), to_json(v)] for k, v in x.items()]}
    if hasattr(x, "to_json"):
        return x.to_json()
    if isinstance(x, float):
        return {"$f": repr(x)}
    return {"$repr": repr(x)}


def from_json(j):
    if isinstance(j, list):
        return [from_json(e) for e in j]
    if isinstance(j, dict):
        if "$i" in j:
            return int(j["$i"])
        if "$q" in j:
            return Fraction(int(j["$q"][0]), int(j["$q"][1]))
        if "$t" in j:
            return tuple(from_json(e) for e in j["$t"])
        if "$s" in j:
            return frozenset(from_json(e) for e in j["$s"])
        if "$d" in j:
            return {from_json(k): from_json(v) for k, v in j["$d"]}
        if "$f" in j:
            return float(j["$f"])
        if "$arr" in j:
            from vf.refsem import ArrV
            return ArrV.from_json(j)
        if "$fun" in j:
            from vf.refsem import FunV
            return FunV.from_json(j)
        if "$repr" in j:
            return j["$repr"]
        return {k: from_json(v) for k, v in j.items()}
    return j


def _is_bp(x):
    return isinstance(x, tuple) and len(x) == 3 and isinstance(x[0], str) and isinstance(x[1], tuple) \
        and isinstance(x[2], tuple) and x[0].isupper()


def _hashable_view(x):
    if _is_bp(x):
        return ("$bp", _dag_digest(x))
    if isinstance(x, (tuple, list)):
        return tuple(_hashable_view(e) for e in x)
    if isinstance(x, dict):
        return tuple(sorted(((repr(k), _hashable_view(v)) for k, v in x.items())))
    return repr(x)


def bphash(x):
    return hashlib.sha1(repr(_hashable_view(x)).encode()).hexdigest()[:16]


# ---------------------------------------------------------------- pretty

def show(bp, maxlen=400):
    out = []
    _show(bp, out, [maxlen])
    s = "".join(out)
    if len(s) > maxlen:
        s = s[:maxlen] + "..."
    return s


def _showv(ty, v):
    if is_bv(ty):
        return "%d_%d" % (v, ty[1])
    if ty == REAL:
        return "%s.r" % (v,)
    if ty == STRING:
        return json.dumps(v)
    return repr(v)


def _show(bp, out, budget):
    """Append the rendering of bp to out; stops descending once the character budget is spent."""
    if budget[0] <= 0:
        return

    def emit(x):
        out.append(x)
        budget[0] -= len(x)

    def args(ch):
        for i, c in enumerate(ch):
            if budget[0] <= 0:
                return
            if i:
                emit(", ")
            _show(c, out, budget)
    op, params, ch = bp
    if op == "SYMBOL":
        emit("%s:%s" % (params[0], tystr(params[1])))
    elif op == "CONST":
        emit(_showv(*params))
    elif op == "FUNCTION":
        emit("%s(" % params[0])
        args(ch)
        emit(")")
    elif op in ("FORALL", "EXISTS"):
        emit("%s[%s].(" % (op.lower(), ",".join("%s:%s" % (n, tystr(t)) for n, t in params)))
        args(ch)
        emit(")")
    elif op == "ARRAY_VALUE":
        emit("Array{%s}(" % tystr(params[0]))
        args(ch)
        emit(")")
    else:
        p = ("[%s]" % ",".join(str(x) for x in params)) if params else ""
        emit("%s%s(" % (op, p))
        args(ch)
        emit(")")
