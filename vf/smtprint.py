"""My own SMT-LIB writer (blueprint -> text) with syntactic variation, for C08 / C17.

It never imports pysmt.  Its output is always re-read by vf/smtref.py, which is the oracle:
this module only has to produce *well-formed* text that exercises many constructs.
"""
from fractions import Fraction

from vf.bp import (BOOL, INT, REAL, STRING, BV, is_bv, is_arr, is_sort, is_fun, subterms)
from vf.refsem import reftype, reffv, all_symbols
from vf.smtref import SIMPLE, RESERVED, THEORY_SYMBOLS

PLAIN = {
    "AND": "and", "OR": "or", "NOT": "not", "IMPLIES": "=>", "ITE": "ite", "PLUS": "+", "MINUS": "-", "TIMES": "*",
    "TOREAL": "to_real", "BV_NOT": "bvnot", "BV_AND": "bvand", "BV_OR": "bvor", "BV_XOR": "bvxor",
    "BV_CONCAT": "concat", "BV_NEG": "bvneg", "BV_ADD": "bvadd", "BV_SUB": "bvsub", "BV_MUL": "bvmul",
    "BV_UDIV": "bvudiv", "BV_UREM": "bvurem", "BV_LSHL": "bvshl", "BV_LSHR": "bvlshr", "BV_COMP": "bvcomp",
    "BV_SDIV": "bvsdiv", "BV_SREM": "bvsrem", "BV_ASHR": "bvashr", "BV_TONATURAL": "bv2nat",
    "STR_LENGTH": "str.len", "STR_CONCAT": "str.++", "STR_CONTAINS": "str.contains", "STR_INDEXOF": "str.indexof",
    "STR_REPLACE": "str.replace", "STR_SUBSTR": "str.substr", "STR_PREFIXOF": "str.prefixof",
    "STR_SUFFIXOF": "str.suffixof", "STR_TO_INT": "str.to_int", "INT_TO_STR": "str.from_int", "STR_CHARAT": "str.at",
    "ARRAY_SELECT": "select", "ARRAY_STORE": "store",
}
FLATTEN = {"AND", "OR", "PLUS", "TIMES", "BV_AND", "BV_OR", "BV_ADD", "BV_MUL", "BV_XOR"}
SWAPPED = {"LE": ("<=", ">="), "LT": ("<", ">"), "BV_ULT": ("bvult", "bvugt"), "BV_ULE": ("bvule", "bvuge"),
           "BV_SLT": ("bvslt", "bvsgt"), "BV_SLE": ("bvsle", "bvsge")}
NEGATED_BV = {"BV_AND": "bvnand", "BV_OR": "bvnor", "BV_XOR": "bvxnor"}


def sort_text(t):
    if isinstance(t, str):
        return t
    if is_bv(t):
        return "(_ BitVec %d)" % t[1]
    if is_arr(t):
        return "(Array %s %s)" % (sort_text(t[1]), sort_text(t[2]))
    if is_sort(t):
        n = t[1]
        if "{" in n:
            base, rest = n.split("{", 1)
            return "(%s %s)" % (quote(base), " ".join(sort_text(a.strip() if a.strip() in ("Int", "Real", "Bool", "String")
                                                               else ("Sort", a.strip())) for a in rest[:-1].split(",")))
        return quote(n)
    raise ValueError(t)


def is_simple(n):
    return bool(n) and all(c in SIMPLE for c in n) and not n[0].isdigit() and n not in RESERVED and n not in THEORY_SYMBOLS \
        and n not in ("true", "false")


def quote(n, force=False):
    if is_simple(n) and not force:
        return n
    assert "|" not in n and "\\" not in n
    return "|%s|" % n


def string_literal_body(v):
    """SMT-LIB 2.6 Strings theory: literals hold printable ASCII; `""` is the quote; everything else, and a backslash
    that would start an escape sequence, is written as \\u{X}."""
    out = []
    for i, ch in enumerate(v):
        if ch == '"':
            out.append('""')
        elif ch == "\\" and v[i + 1:i + 2] == "u":
            out.append("\\u{5c}")
        elif 0x20 <= ord(ch) <= 0x7E:
            out.append(ch)
        else:
            out.append("\\u{%x}" % ord(ch))
    return "".join(out)


class Writer(object):
    def __init__(self, rnd, numerals_are_real=False, variation=True, tags=None):
        self.rnd = rnd
        self.real_numerals = numerals_are_real
        self.var = variation
        self.tags = tags if tags is not None else set()
        self.tm = {}
        self.subst = {}          # id(sub-blueprint) -> text (let-bound names in scope)
        self.int_numeral_rationals = False   # write some rationals as (/ m n) although numerals are of sort Int
        self.annotate = False                # wrap some terms in (! t :named n ...)
        self.annotations = []                # (term blueprint, [(attribute, expected value | None | Ellipsis = not judged)])
        self.nann = 0
        self.qualify = False                 # write some names as (as name Sort)

    def pct(self, p):
        return self.var and self.rnd.randrange(100) < p

    def name(self, n):
        if is_simple(n) and self.pct(10):
            self.tags.add("quoted-simple-symbol")
            return quote(n, force=True)
        if not is_simple(n):
            self.tags.add("quoted-symbol")
        return quote(n)

    def ty(self, t):
        return reftype(t, self.tm)

    def const(self, ty, v):
        if ty == BOOL:
            return "true" if v else "false"
        if ty == INT:
            if v < 0:
                self.tags.add("negative-int")
                return "(- %d)" % (-v)
            return str(v)
        if ty == REAL:
            v = Fraction(v)
            neg = v < 0
            a = abs(v)
            if a.denominator == 1:
                k = self.rnd.randrange(3) if self.var else 0
                if k == 1 and self.real_numerals:
                    s = str(a.numerator)
                    self.tags.add("real-as-numeral")
                elif k == 2:
                    s = "%d.00" % a.numerator
                    self.tags.add("decimal-trailing-zeros")
                else:
                    s = "%d.0" % a.numerator
            else:
                # exact decimal if the denominator is a power of 10 divisor
                d = a.denominator
                dec = None
                for k in range(1, 8):
                    if (10 ** k) % d == 0:
                        dec = "%d.%0*d" % (a.numerator // d, k, (a.numerator % d) * (10 ** k // d))
                        break
                if dec is not None and self.pct(50):
                    s = dec
                    self.tags.add("decimal")
                elif self.real_numerals and self.pct(40):
                    s = "(/ %d %d)" % (a.numerator, a.denominator)
                    self.tags.add("rational-of-numerals")
                elif self.int_numeral_rationals and not self.real_numerals and self.pct(35):
                    s = "(/ %d %d)" % (a.numerator, a.denominator)
                    self.tags.add("rational-of-int-numerals")
                else:
                    s = "(/ %d.0 %d.0)" % (a.numerator, a.denominator)
                    self.tags.add("rational")
            if neg:
                self.tags.add("negative-real")
                return "(- %s)" % s
            return s
        if ty == STRING:
            if self.var and v and self.pct(30):
                # any character may be written with one of the escape forms: \\u{X} (1-5 digits), \\uXXXX
                out = []
                for i, ch in enumerate(v):
                    o = ord(ch)
                    plain = ch != '"' and 0x20 <= o <= 0x7E and not (ch == "\\" and v[i + 1:i + 2] == "u")
                    if plain and not self.pct(40):
                        out.append(ch)
                    else:
                        forms = ["\\u{%x}" % o, "\\u{%X}" % o]
                        if o <= 0xFFFF:
                            forms += ["\\u%04x" % o, "\\u{%05x}" % o, "\\u%04X" % o]
                        out.append(self.rnd.choice(forms))
                self.tags.add("string-escape")
                return '"%s"' % "".join(out)
            return '"%s"' % string_literal_body(v)
        if is_bv(ty):
            w = ty[1]
            k = self.rnd.randrange(3) if self.var else 0
            if k == 1 and w % 4 == 0:
                self.tags.add("hex-literal")
                return "#x" + format(v, "0%dx" % (w // 4))
            if k == 2:
                self.tags.add("bv-indexed-literal")
                return "(_ bv%d %d)" % (v, w)
            return "#b" + format(v, "0%db" % w)
        raise ValueError(ty)

    def term(self, t):
        s = self._term(t)
        if self.annotate and t[0] not in ("CONST",) and self.pct(4):
            # (! t attributes) denotes t
            self.nann += 1
            self.tags.add("annotated-term")
            k = self.nann
            attrs = self.rnd.choice([
                [("named", "ann!%d" % k, "ann!%d" % k)],
                [("weight", "3", "3"), ("named", "|ann %d|" % k, "ann %d" % k)],
                [("origin", "(some (nested) s-expr)", Ellipsis), ("named", "ann!%d" % k, "ann!%d" % k)],
                # attributes without a value, after / before / between attributes with one
                [("named", "ann!%d" % k, "ann!%d" % k), ("lemma", None, None)],
                [("lemma", None, None), ("named", "ann!%d" % k, "ann!%d" % k)],
                [("weight", "3", "3"), ("flag-a", None, None), ("named", "|ann %d|" % k, "ann %d" % k), ("flag-b", None, None)]])
            s = "(! %s %s)" % (s, " ".join(":%s%s" % (a, "" if txt is None else " " + txt) for (a, txt, _) in attrs))
            self.annotations.append((t, [(a, v) for (a, _, v) in attrs]))
        return s

    def qualified(self, text, t):
        """name  ->  (as name Sort) now and then: a qualified identifier denotes what the name denotes."""
        if self.qualify and not text.startswith("(") and self.pct(6):
            try:
                ty = self.ty(t)
            except Exception:
                return text
            if is_fun(ty):
                return text
            self.tags.add("qualified-identifier")
            return "(as %s %s)" % (text, sort_text(ty))
        return text

    def _term(self, t):
        if self.subst and id(t) in self.subst:
            return self.qualified(self.subst[id(t)], t)
        op, params, ch = t
        T = self.term
        if op == "SYMBOL":
            return self.qualified(self.name(params[0]), t)
        if op == "CONST":
            return self.const(*params)
        if op == "FUNCTION":
            return "(%s %s)" % (self.name(params[0]), " ".join(T(c) for c in ch))
        if op in ("FORALL", "EXISTS"):
            self.tags.add("quantifier")
            vs = " ".join("(%s %s)" % (self.name(n), sort_text(ty)) for (n, ty) in params)
            return "(%s (%s) %s)" % (op.lower(), vs, T(ch[0]))
        if op == "ARRAY_VALUE":
            at = sort_text(("Array", params[0], self.ty(ch[0])))
            s = "((as const %s) %s)" % (at, T(ch[0]))
            self.tags.add("as-const")
            for i in range(1, len(ch), 2):
                s = "(store %s %s %s)" % (s, T(ch[i]), T(ch[i + 1]))
            return s
        if op == "BV_EXTRACT":
            return "((_ extract %d %d) %s)" % (params[1], params[0], T(ch[0]))
        if op in ("BV_ROL", "BV_ROR", "BV_ZEXT", "BV_SEXT"):
            nm = {"BV_ROL": "rotate_left", "BV_ROR": "rotate_right", "BV_ZEXT": "zero_extend", "BV_SEXT": "sign_extend"}[op]
            self.tags.add("indexed-operator")
            return "((_ %s %d) %s)" % (nm, params[0], T(ch[0]))
        if op in ("IFF", "EQUALS"):
            return "(= %s %s)" % (T(ch[0]), T(ch[1]))
        if op == "NOT":
            c = ch[0]
            if c[0] == "EQUALS" and self.pct(50):
                self.tags.add("distinct")
                return "(distinct %s %s)" % (T(c[2][0]), T(c[2][1]))
            if c[0] == "IFF" and self.pct(50):
                self.tags.add("xor")
                return "(xor %s %s)" % (T(c[2][0]), T(c[2][1]))
            return "(not %s)" % T(c)
        if op == "BV_NOT" and ch[0][0] in NEGATED_BV and self.pct(50):
            self.tags.add("bv-negated-operator")
            return "(%s %s %s)" % (NEGATED_BV[ch[0][0]], T(ch[0][2][0]), T(ch[0][2][1]))
        if op in SWAPPED:
            a, b = SWAPPED[op]
            if self.pct(40):
                self.tags.add("swapped-relation")
                return "(%s %s %s)" % (b, T(ch[1]), T(ch[0]))
            return "(%s %s %s)" % (a, T(ch[0]), T(ch[1]))
        if op == "AND" and self.var:
            # chainable relations:  (and (< a b) (< b c))  ->  (< a b c)
            if len(ch) == 2 and ch[0][0] == ch[1][0] and ch[0][0] in ("LT", "LE") and ch[0][2][1] == ch[1][2][0] \
                    and self.pct(70):
                self.tags.add("chainable")
                o = "<" if ch[0][0] == "LT" else "<="
                return "(%s %s %s %s)" % (o, T(ch[0][2][0]), T(ch[0][2][1]), T(ch[1][2][1]))
        if op == "DIV":
            o = "div" if self.ty(ch[0]) == INT else "/"
            return "(%s %s %s)" % (o, T(ch[0]), T(ch[1]))
        if op == "IMPLIES":
            if ch[1][0] == "IMPLIES" and self.pct(60):
                self.tags.add("right-assoc-implies")
                return "(=> %s %s %s)" % (T(ch[0]), T(ch[1][2][0]), T(ch[1][2][1]))
            return "(=> %s %s)" % (T(ch[0]), T(ch[1]))
        if op == "MINUS":
            if ch[0][0] == "MINUS" and self.pct(60):
                self.tags.add("left-assoc-minus")
                return "(- %s %s %s)" % (T(ch[0][2][0]), T(ch[0][2][1]), T(ch[1]))
            return "(- %s %s)" % (T(ch[0]), T(ch[1]))
        if op in FLATTEN:
            args = list(ch)
            if self.pct(50):
                # left-assoc flattening:  (op (op a b) c) -> (op a b c)
                while args[0][0] == op and (op in ("AND", "OR", "PLUS", "TIMES") or len(args[0][2]) == 2):
                    args = list(args[0][2]) + args[1:]
                    self.tags.add("nary-flattened")
            return "(%s %s)" % (PLAIN[op], " ".join(T(c) for c in args))
        if op in PLAIN:
            return "(%s %s)" % (PLAIN[op], " ".join(T(c) for c in ch))
        if op == "BV_ULT":
            return "(bvult %s %s)" % (T(ch[0]), T(ch[1]))
        raise ValueError("cannot print %s" % op)

    # ---- let introduction
    def term_with_lets(self, t, avoid):
        """Bind some sub-terms of a binder-free term with nested and parallel lets."""
        if any(x[0] in ("FORALL", "EXISTS") for x in subterms(t)):
            return self.term(t)
        cnt = {}

        def count(x):
            cnt[id(x)] = cnt.get(id(x), 0) + 1
            if cnt[id(x)] == 1:
                for c in x[2]:
                    count(c)
        count(t)
        cands = [x for x in subterms(t) if x[2] and x is not t and (cnt.get(id(x), 0) >= 2 or self.pct(15))][:5]
        if not cands:
            return self.term(t)
        self.tags.add("let")
        names = {}
        k = 0
        for x in cands:
            while True:
                n = self.rnd.choice(["?v%d", "lv%d", ".d%d", "x!%d", "let%d"]) % k
                k += 1
                if n not in avoid and n not in names.values():
                    break
            names[id(x)] = n
        # bindings of one group are independent (parallel let); later groups may use earlier names
        groups = []
        for x in cands:
            if groups and not any(any(m is y for y in subterms(x)) for m in groups[-1]) and self.pct(60):
                groups[-1].append(x)
            else:
                groups.append([x])
        if any(len(g) > 1 for g in groups):
            self.tags.add("parallel-let")
        rendered = []
        for g in groups:
            rendered.append([(names[id(x)], self.term(x)) for x in g])
            for x in g:
                self.subst[id(x)] = quote(names[id(x)])
        out = self.term(t)
        for g in cands:
            self.subst.pop(id(g), None)
        for binds in reversed(rendered):
            out = "(let (%s) %s)" % (" ".join("(%s %s)" % (quote(n), txt) for (n, txt) in binds), out)
        return out


def declarations(bps, writer):
    """declare-sort / declare-fun (or declare-const) lines for the free symbols of the blueprints."""
    from vf.refsem import sorts_of_type
    syms = set()
    sorts = set()
    for b in bps:
        syms |= reffv(b)
        for s in subterms(b):
            try:
                sorts_of_type(reftype(s), sorts)
            except Exception:
                pass
            if s[0] in ("FORALL", "EXISTS"):
                for (_, t) in s[1]:
                    sorts_of_type(t, sorts)
            elif s[0] == "ARRAY_VALUE":
                sorts_of_type(s[1][0], sorts)
    for (_, t) in syms:
        sorts_of_type(t, sorts)
    lines = []
    decl_sorts = {}
    for s in sorted(sorts):
        if "{" in s:
            base, rest = s.split("{", 1)
            args = [a.strip() for a in rest[:-1].split(",")]
            decl_sorts[base] = len(args)
            for a in args:
                if a not in ("Int", "Real", "Bool", "String"):
                    decl_sorts.setdefault(a, 0)
        else:
            decl_sorts.setdefault(s, 0)
    for n in sorted(decl_sorts, key=lambda x: (decl_sorts[x], x)):
        lines.append("(declare-sort %s %d)" % (quote(n), decl_sorts[n]))
    for (n, t) in sorted(syms, key=repr):
        if is_fun(t):
            lines.append("(declare-fun %s (%s) %s)" % (writer.name(n), " ".join(sort_text(p) for p in t[2]), sort_text(t[1])))
        elif writer.pct(30):
            writer.tags.add("declare-const")
            lines.append("(declare-const %s %s)" % (writer.name(n), sort_text(t)))
        else:
            lines.append("(declare-fun %s () %s)" % (writer.name(n), sort_text(t)))
    return lines
