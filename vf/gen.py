"""Hypothesis-driven generators of types, blueprints, interpretations.

Every random choice goes through `draw` (Hypothesis), so cases replay and shrink.
"""
from fractions import Fraction
import itertools

from hypothesis import strategies as st

from vf.bp import (BOOL, INT, REAL, STRING, BV, ARR, SORT, FUN, is_bv, is_arr, is_sort,
                   is_fun, tystr, sym, const, app)
from vf.refsem import ArrV, FunV, domain_size, INF, reffv, sorts_of_type

STRINGS = ["", "a", "b", "ab", "abc", "aba", "ba", "0", "12", "007", "-3", " 12", "1_0", "+5",
           "٣", "a\"b", "x y", "\\", "abcabc", "c", "é", "12a", "9" * 25,
           # what SMT-LIB 2.6 writes with escapes: text that looks like an escape, characters outside 0x20-0x7E
           "\\u{41}", "a\\u0062", "\n", "\x7f", "\U0001F600", "\\u{", "\\x41",
           # adjacent quotes (each is written "" or \u{22})
           "a\"\"b", "\"\"", "\"a\""]
INTS = [0, 1, -1, 2, -2, 3, -3, 4, 5, 7, 8, -8, 16, 33, 100, -100, 2 ** 31, -2 ** 31, 2 ** 53 + 1,
        -(2 ** 63), 10 ** 20 + 1, -(10 ** 20) - 1, 2 ** 80, 3 * 10 ** 17 + 1]
REALS = [Fraction(0), Fraction(1), Fraction(-1), Fraction(1, 2), Fraction(-1, 2), Fraction(3, 2),
         Fraction(-3, 2), Fraction(2), Fraction(-2), Fraction(1, 3), Fraction(5, 7), Fraction(10),
         Fraction(10 ** 20 + 1, 3), Fraction(-7, 2 ** 60), Fraction(2 ** 70)]


class Cfg(object):
    def __init__(self, **kw):
        self.theories = {"bool", "int", "real", "bv", "str", "arr", "uf", "sort", "quant"}
        self.bv_widths = [1, 2, 3, 4, 8, 16, 33]
        self.max_depth = 5
        self.quant_types = [BOOL, BV(1), BV(2), SORT("S1")]
        self.quant_unbounded = False      # Int / Real binders
        self.div = True
        self.pow = False
        self.sorts = ["S1", "S2"]
        self.nsyms = 3
        self.bool_elem_arrays = True
        self.strings = STRINGS
        self.ints = INTS
        self.reals = REALS
        self.small_ints = False
        self.array_idx = None             # override index types
        self.share = 25                   # % chance to reuse a pooled sub-term
        self.same_child = 12              # % chance that a binary op gets x op x
        self.sym_offset = 0               # symbol index offset (disjoint name spaces)
        for k, v in kw.items():
            if not hasattr(self, k):
                raise AttributeError(k)
            setattr(self, k, v)

    def has(self, th):
        return th in self.theories


def symname(ty, k):
    if ty == BOOL:
        return "p%d" % k
    if ty == INT:
        return "i%d" % k
    if ty == REAL:
        return "r%d" % k
    if ty == STRING:
        return "s%d" % k
    if is_bv(ty):
        return "b%d_%d" % (ty[1], k)
    if is_sort(ty):
        return "e%s_%d" % (ty[1], k)
    if is_arr(ty):
        return "a%s%d" % (tystr(ty), k)
    if is_fun(ty):
        return "f%s%d" % (tystr(ty), k)
    raise ValueError(ty)


class G(object):
    def __init__(self, draw=None, cfg=None, rnd=None):
        """Choices come from `rnd` (a random.Random handed out by Hypothesis'
        st.randoms(use_true_random=True), i.e. seeded by Hypothesis) when given,
        else from `draw` (fully shrinkable, ~50x slower)."""
        self.draw = draw
        self.rnd = rnd
        self.cfg = cfg or Cfg()
        self.pool = {}
        self.nbind = 0

    # ---- primitive draws
    def i(self, n):
        """integer in [0, n)"""
        if self.rnd is not None:
            return self.rnd.randrange(n)
        return self.draw(st.integers(0, n - 1))

    def pct(self, p):
        return self.i(100) < p

    def choice(self, xs):
        return xs[self.i(len(xs))]

    def weighted(self, pairs):
        tot = sum(w for w, _ in pairs)
        r = self.i(tot)
        for w, x in pairs:
            if r < w:
                return x
            r -= w
        raise AssertionError

    # ---- types
    def base_types(self):
        c = self.cfg
        out = []
        if c.has("bool"):
            out.append((4, BOOL))
        if c.has("int"):
            out.append((4, INT))
        if c.has("real"):
            out.append((3, REAL))
        if c.has("str"):
            out.append((3, STRING))
        if c.has("bv"):
            out.append((5, "bv"))
        if c.has("sort"):
            out.append((1, "sort"))
        return out

    def elem_type(self, nest=0):
        opts = self.base_types()
        if self.cfg.has("arr") and nest < 1:
            opts.append((1, "arr"))
        t = self.weighted(opts)
        if t == "bv":
            return BV(self.choice(self.cfg.bv_widths))
        if t == "sort":
            return SORT(self.choice(self.cfg.sorts))
        if t == "arr":
            return self.array_type(nest + 1)
        if t == BOOL and not self.cfg.bool_elem_arrays and nest > 0:
            return INT if self.cfg.has("int") else BV(self.choice(self.cfg.bv_widths))
        return t

    def index_type(self):
        c = self.cfg
        if c.array_idx:
            return self.choice(c.array_idx)
        opts = []
        if c.has("int"):
            opts.append((4, INT))
        if c.has("bv"):
            opts.append((4, "bv"))
        if c.has("real"):
            opts.append((1, REAL))
        if c.has("sort"):
            opts.append((1, "sort"))
        if not opts:
            opts.append((1, INT))
        t = self.weighted(opts)
        if t == "bv":
            return BV(self.choice(c.bv_widths))
        if t == "sort":
            return SORT(self.choice(c.sorts))
        return t

    def array_type(self, nest=1):
        return ARR(self.index_type(), self.elem_type(nest))

    def ty(self):
        """A (non-function) type for a term."""
        opts = self.base_types()
        if self.cfg.has("arr"):
            opts.append((2, "arr"))
        t = self.weighted(opts)
        if t == "bv":
            return BV(self.choice(self.cfg.bv_widths))
        if t == "sort":
            return SORT(self.choice(self.cfg.sorts))
        if t == "arr":
            return self.array_type()
        return t

    def param_type(self):
        t = self.weighted(self.base_types())
        if t == "bv":
            return BV(self.choice(self.cfg.bv_widths))
        if t == "sort":
            return SORT(self.choice(self.cfg.sorts))
        return t

    # ---- constants
    def const_value(self, ty):
        c = self.cfg
        if ty == BOOL:
            return self.i(2) == 1
        if ty == INT:
            if c.small_ints or self.pct(70):
                return self.i(9) - 3
            return self.choice(c.ints)
        if ty == REAL:
            if self.pct(50):
                return Fraction(self.i(9) - 4, self.i(3) + 1)
            return self.choice(c.reals)
        if ty == STRING:
            return self.choice(c.strings)
        if is_bv(ty):
            w = ty[1]
            M = 1 << w
            sp = [0, 1 % M, M - 1, M >> 1, (M >> 1) - 1 if M > 1 else 0, w % M, (w + 1) % M, (w - 1) % M]
            if self.pct(60):
                return self.choice(sp)
            return self.i(M)
        raise ValueError(ty)

    def has_consts(self, ty):
        if is_sort(ty) or is_fun(ty):
            return False
        if is_arr(ty):
            return self.has_consts(ty[2])
        return True

    def constant(self, ty):
        """A constant blueprint of type ty (array values for arrays)."""
        if is_arr(ty):
            it, et = ty[1], ty[2]
            d = self.constant(et)
            ch = [d]
            if self.has_consts(it) and not is_arr(it):
                n = self.weighted([(3, 0), (3, 1), (2, 2), (1, 3)])
                seen = set()
                for _ in range(n):
                    k = self.constant(it)
                    if k in seen:
                        continue
                    seen.add(k)
                    ch += [k, self.constant(et)]
            return ("ARRAY_VALUE", (it,), tuple(ch))
        return const(ty, self.const_value(ty))

    def array_literal(self, ty, d):
        """An array value whose default / assigned values may be arbitrary terms (keys are constants)."""
        it, et = ty[1], ty[2]

        def elem():
            if self.has_consts(et) and self.pct(35):
                return self.constant(et)
            if is_arr(et) and self.pct(60):
                return self.array_literal(et, d)
            return self.term(et, min(d, 2))
        ch = [elem()]
        if self.has_consts(it) and not is_arr(it):
            seen = set()
            for _ in range(self.weighted([(4, 0), (3, 1), (2, 2), (1, 3)])):
                k = self.constant(it)
                if k in seen:
                    continue
                seen.add(k)
                ch += [k, elem()]
        return ("ARRAY_VALUE", (it,), tuple(ch))

    # ---- symbols
    def symbol(self, ty):
        return sym(symname(ty, self.cfg.sym_offset + self.i(self.cfg.nsyms)), ty)

    def fun_symbol(self, ret):
        n = self.weighted([(5, 1), (3, 2), (1, 3)])
        params = tuple(self.param_type() for _ in range(n))
        ft = FUN(ret, params)
        return (symname(ft, self.cfg.sym_offset + self.i(2)), ft)

    # ---- terms
    def leaf(self, ty):
        if self.has_consts(ty) and self.pct(35 if not is_arr(ty) else 25):
            return self.constant(ty)
        return self.symbol(ty)

    def pooled(self, ty):
        lst = self.pool.get(ty)
        if lst and self.pct(self.cfg.share):
            return self.choice(lst)
        return None

    def term(self, ty, d=None):
        root = d is None
        if d is None:
            d = self.cfg.max_depth
        p = None if root else self.pooled(ty)
        if p is not None:
            return p
        if d <= 0 or (not root and self.pct(18)):
            t = self.leaf(ty)
        else:
            t = self.compound(ty, d)
        self.pool.setdefault(ty, []).append(t)
        return t

    def two(self, ty, d):
        a = self.term(ty, d)
        if self.pct(self.cfg.same_child):
            return a, a
        return a, self.term(ty, d)

    def arith_type(self):
        c = self.cfg
        o = []
        if c.has("int"):
            o.append(INT)
        if c.has("real"):
            o.append(REAL)
        return self.choice(o) if o else None

    def some_bv(self):
        return BV(self.choice(self.cfg.bv_widths))

    def eq_type(self):
        """A non-Bool type for EQUALS."""
        for _ in range(5):
            t = self.ty()
            if t != BOOL:
                return t
        return None

    def compound(self, ty, d):
        c = self.cfg
        d1 = d - 1
        opts = [(3, "ite")]
        if c.has("uf"):
            opts.append((2, "uf"))
        if c.has("arr"):
            opts.append((2, "select"))
        if ty == BOOL:
            opts += [(4, "and"), (4, "or"), (4, "not"), (3, "implies"), (3, "iff")]
            if c.has("int") or c.has("real"):
                opts += [(4, "le"), (3, "lt")]
            opts.append((5, "equals"))
            if c.has("bv"):
                opts.append((5, "bvrel"))
            if c.has("str"):
                opts.append((3, "strrel"))
            if c.has("quant"):
                opts.append((4, "quant"))
        elif ty == INT:
            opts += [(5, "plus"), (4, "minus"), (4, "times")]
            if c.div:
                opts.append((3, "div"))
            if c.has("bv"):
                opts.append((2, "bv2nat"))
            if c.has("str"):
                opts += [(2, "strlen"), (2, "indexof"), (2, "str2int")]
        elif ty == REAL:
            opts += [(5, "plus"), (4, "minus"), (4, "times")]
            if c.div:
                opts.append((3, "div"))
            if c.has("int"):
                opts.append((3, "toreal"))
            if c.pow:
                opts.append((1, "pow"))
        elif is_bv(ty):
            opts += [(4, "bvun"), (14, "bvbin"), (3, "rot"), (3, "ext"), (3, "extract")]
            if ty[1] >= 2:
                opts.append((3, "concat"))
            if ty[1] == 1:
                opts.append((3, "comp"))
        elif ty == STRING:
            opts += [(4, "strconcat"), (3, "replace"), (3, "substr"), (3, "charat")]
            if c.has("int"):
                opts.append((2, "int2str"))
        elif is_arr(ty):
            opts += [(6, "store"), (2, "arrval")]
        kind = self.weighted(opts)
        T = self.term

        if kind == "ite":
            a, b = self.two(ty, d1)
            return app("ITE", T(BOOL, d1), a, b)
        if kind == "uf":
            name, ft = self.fun_symbol(ty)
            args = [T(p, min(d1, 2)) for p in ft[2]]
            return ("FUNCTION", (name, ft), tuple(args))
        if kind == "select":
            it = self.index_type()
            if ty == BOOL and not c.bool_elem_arrays:
                return self.leaf(ty)
            if is_arr(ty) and is_arr(ty[2]):
                return self.leaf(ty)
            return app("ARRAY_SELECT", T(ARR(it, ty), d1), T(it, min(d1, 2)))
        if kind in ("and", "or"):
            n = self.weighted([(6, 2), (3, 3), (1, 4)])
            ch = [T(BOOL, d1) for _ in range(n)]
            if self.pct(10):
                ch[-1] = app("NOT", ch[0])
            return app(kind.upper(), *ch)
        if kind == "not":
            return app("NOT", T(BOOL, d1))
        if kind in ("implies", "iff"):
            a, b = self.two(BOOL, d1)
            return app(kind.upper(), a, b)
        if kind in ("le", "lt"):
            a, b = self.two(self.arith_type(), d1)
            return app(kind.upper(), a, b)
        if kind == "equals":
            t = self.eq_type()
            if t is None:
                return self.leaf(ty)
            a, b = self.two(t, d1)
            return app("EQUALS", a, b)
        if kind == "bvrel":
            a, b = self.two(self.some_bv(), d1)
            return app(self.choice(["BV_ULT", "BV_ULE", "BV_SLT", "BV_SLE"]), a, b)
        if kind == "strrel":
            a, b = self.two(STRING, d1)
            return app(self.choice(["STR_CONTAINS", "STR_PREFIXOF", "STR_SUFFIXOF"]), a, b)
        if kind == "quant":
            qts = list(c.quant_types)
            if c.quant_unbounded:
                qts += [INT, REAL]
            n = self.weighted([(6, 1), (3, 2), (1, 3)])
            vs = []
            for _ in range(n):
                qt = self.choice(qts)
                v = (symname(qt, c.sym_offset + self.i(c.nsyms)), qt)
                if v not in vs:
                    vs.append(v)
            # make the bound variables likely to occur in the body
            saved = self.pool
            self.pool = {k: list(v) for k, v in saved.items()}
            for v in vs:
                self.pool.setdefault(v[1], []).extend([sym(*v)] * 3)
            body = T(BOOL, d1)
            self.pool = saved
            self.nbind += 1
            return (self.choice(["FORALL", "EXISTS"]), tuple(vs), (body,))
        if kind in ("plus", "times"):
            n = self.weighted([(6, 2), (3, 3), (1, 4)])
            ch = [T(ty, d1) for _ in range(n)]
            if self.pct(self.cfg.same_child):
                ch[-1] = ch[0]
            return app(kind.upper(), *ch)
        if kind in ("minus", "div"):
            a, b = self.two(ty, d1)
            return app(kind.upper(), a, b)
        if kind == "pow":
            # Pow(base, constant exponent) : Real, for Int or Real bases (pySMT's typing rule)
            bt = INT if (self.cfg.has("int") and self.pct(40)) else REAL
            e = self.choice([-2, -1, 0, 1, 2, 2, 3, 3, 5])
            if bt == REAL and self.pct(8):
                return app("POW", T(bt, d1), const(bt, Fraction(self.choice([1, 3, -1]), 2)))
            return app("POW", T(bt, d1), const(bt, Fraction(e) if bt == REAL else e))
        if kind == "toreal":
            return app("TOREAL", T(INT, d1))
        if kind == "bv2nat":
            return app("BV_TONATURAL", T(self.some_bv(), d1))
        if kind == "strlen":
            return app("STR_LENGTH", T(STRING, d1))
        if kind == "str2int":
            return app("STR_TO_INT", T(STRING, d1))
        if kind == "int2str":
            return app("INT_TO_STR", T(INT, d1))
        if kind == "indexof":
            return app("STR_INDEXOF", T(STRING, d1), T(STRING, d1), T(INT, d1))
        if kind == "strconcat":
            n = self.weighted([(6, 2), (3, 3)])
            return app("STR_CONCAT", *[T(STRING, d1) for _ in range(n)])
        if kind == "replace":
            return app("STR_REPLACE", T(STRING, d1), T(STRING, d1), T(STRING, d1))
        if kind == "substr":
            return app("STR_SUBSTR", T(STRING, d1), T(INT, d1), T(INT, d1))
        if kind == "charat":
            return app("STR_CHARAT", T(STRING, d1), T(INT, d1))
        if kind == "bvun":
            return app(self.choice(["BV_NOT", "BV_NEG"]), T(ty, d1))
        if kind == "bvbin":
            a, b = self.two(ty, d1)
            o = self.choice(["BV_AND", "BV_OR", "BV_XOR", "BV_ADD", "BV_SUB", "BV_MUL", "BV_UDIV",
                             "BV_UREM", "BV_LSHL", "BV_LSHR", "BV_ASHR", "BV_SDIV", "BV_SREM"])
            return app(o, a, b)
        if kind == "rot":
            k = self.i(ty[1] + 1)
            return app(self.choice(["BV_ROL", "BV_ROR"]), T(ty, d1), params=(k,))
        if kind == "ext":
            ws = [w for w in c.bv_widths if w <= ty[1]] or [ty[1]]
            w0 = self.choice(ws)
            return app(self.choice(["BV_ZEXT", "BV_SEXT"]), T(BV(w0), d1), params=(ty[1] - w0,))
        if kind == "extract":
            ws = [w for w in c.bv_widths if w >= ty[1]] or [ty[1]]
            w0 = self.choice(ws)
            s = self.i(w0 - ty[1] + 1)
            return app("BV_EXTRACT", T(BV(w0), d1), params=(s, s + ty[1] - 1))
        if kind == "concat":
            w1 = 1 + self.i(ty[1] - 1)
            return app("BV_CONCAT", T(BV(w1), d1), T(BV(ty[1] - w1), d1))
        if kind == "comp":
            a, b = self.two(self.some_bv(), d1)
            return app("BV_COMP", a, b)
        if kind == "store":
            return app("ARRAY_STORE", T(ty, d1), T(ty[1], min(d1, 2)), T(ty[2], min(d1, 2)))
        if kind == "arrval":
            if self.has_consts(ty) and self.pct(40):
                return self.constant(ty)
            return self.array_literal(ty, d1)
        raise AssertionError(kind)

    # ---- interpretations
    def cards(self):
        return {s: 1 + self.i(3) for s in self.cfg.sorts}

    def value(self, ty, cards):
        if is_sort(ty):
            return self.i(cards.get(ty[1], 2))
        if is_arr(ty):
            it, et = ty[1], ty[2]
            d = self.value(et, cards)
            n = self.weighted([(3, 0), (3, 1), (2, 2), (1, 3)])
            items = {}
            for _ in range(n):
                items[self.value(it, cards)] = self.value(et, cards)
            return ArrV(d, items)
        if is_fun(ty):
            return FunV([self.value(ty[1], cards) for _ in range(3)])
        return self.const_value(ty)

    def interp(self, syms, cards):
        return {name: self.value(ty, cards) for (name, ty) in sorted(syms, key=repr)}


def all_values(ty, cards, limit=64):
    """Every value of a small finite type, or None."""
    if ty == BOOL:
        return [False, True]
    if is_bv(ty) and (1 << ty[1]) <= limit:
        return list(range(1 << ty[1]))
    if is_sort(ty) and cards.get(ty[1], 2) <= limit:
        return list(range(cards.get(ty[1], 2)))
    return None


def exhaustive_interps(syms, cards, cap=256):
    """All interpretations if every symbol has a small finite domain, else None."""
    syms = sorted(syms, key=repr)
    doms = []
    tot = 1
    for (name, ty) in syms:
        vs = all_values(ty, cards)
        if vs is None:
            return None
        tot *= len(vs)
        if tot > cap:
            return None
        doms.append(vs)
    return [dict(zip([n for n, _ in syms], combo)) for combo in itertools.product(*doms)]


def needed_cards(bp, cards):
    acc = set()
    from vf.refsem import all_symbols
    for (_, ty) in all_symbols(bp):
        sorts_of_type(ty, acc)
    return {s: cards.get(s, 2) for s in acc} or {}
