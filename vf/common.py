"""Shared helpers for the term-based checks (build in a fresh env, compare values)."""
import itertools

from pysmt.environment import Environment

from vf import bp as B
from vf.bp import subterms, show
from vf.refsem import (Evaluator, reftype, reffv, all_symbols, val_eq, Unconstrained, NoSemantics,
                       IllTyped)
from vf.gen import G, Cfg, exhaustive_interps, needed_cards
from vf import pys


def reftype_or_none(bp):
    try:
        return reftype(bp)
    except IllTyped:
        return None


def is_arr(t):
    return isinstance(t, tuple) and t[0] == "Array"


class Rejected(Exception):
    """pysmt refused to build the generated blueprint."""


def fresh_build(bp):
    """-> (env, fnode, decoded blueprint).  Caller must use `with env:`."""
    env = Environment()
    try:
        f = pys.build(env, bp)
    except Exception as e:           # noqa: any constructor error is a rejection
        raise Rejected("%s: %s" % (type(e).__name__, e))
    return env, f


def interps_for(g, syms, cards, n=8):
    """Exhaustive interpretations when small, else n sampled ones.  -> (list, exhaustive?)"""
    ex = exhaustive_interps(syms, cards, cap=128)
    if ex is not None:
        return ex, True
    return [g.interp(syms, cards) for _ in range(n)], False


def compare_values(b0, b1, interps, cards):
    """Compare b0 and b1 under each interpretation.
    -> (n_compared, n_unconstrained, first_mismatch or None)"""
    try:
        ty = reftype(b0)
    except IllTyped as e:
        return 0, 0, ("illtyped-original", str(e))
    ncmp = nunc = 0
    for I in interps:
        try:
            v0 = Evaluator(I, cards).eval(b0)
        except Unconstrained:
            nunc += 1
            continue
        try:
            v1 = Evaluator(I, cards).eval(b1)
        except Unconstrained:
            nunc += 1
            continue
        ncmp += 1
        if not val_eq(v0, v1, ty, cards):
            return ncmp, nunc, ("value", I, v0, v1)
    return ncmp, nunc, None


def child_kinds(bp):
    ks = []
    for c in bp[2]:
        if c[0] == "CONST" or (not is_arr(reftype_or_none(c)) and not reffv(c) and "FORALL" not in B.ops_of(c) and "EXISTS" not in B.ops_of(c)):
            ks.append("const")      # literal or ground (folds to a literal)
        elif c[0] == "SYMBOL":
            ks.append("sym")
        elif c[0] == "ARRAY_VALUE" and all(x[0] == "CONST" for x in c[2]):
            ks.append("arrconst")
        else:
            ks.append("term")
    return ",".join(ks)


def localise(bp, fails):
    """Smallest sub-blueprint (by DAG size) for which fails(sub) is true; bp itself otherwise."""
    subs = sorted(subterms(bp), key=B.size)
    for s in subs:
        if s is bp:
            continue
        try:
            if fails(s):
                return s
        except Exception:
            continue
    return bp


class Timeout(Exception):
    """A single call exceeded its budget: the case is inconclusive, never a violation."""


def with_timeout(seconds, thunk):
    """Run thunk() under a SIGALRM budget (main thread of a worker process)."""
    import signal

    def handler(signum, frame):
        raise Timeout()
    old = signal.signal(signal.SIGALRM, handler)
    signal.alarm(seconds)
    try:
        return thunk()
    finally:
        signal.alarm(0)
        signal.signal(signal.SIGALRM, old)
