"""C02 - EagerModel evaluation returns the exact value; satisfies iff true; completion defaults."""
import warnings

from hypothesis import strategies as st

from pysmt.environment import Environment
from pysmt.solvers.eager import EagerModel

from vf import bp as B
from vf.bp import BOOL, INT, REAL, STRING, BV, is_bv, is_arr, is_fun, app, const, sym, show
from vf.refsem import (Evaluator, reftype, reffv, val_eq, default_value, Unconstrained, NoSemantics,
                       IllTyped, ArrV)
from vf.gen import G, Cfg
from vf.harness import Run, Check, run_shards, drive, derive_seed
from vf.common import child_kinds, localise
from vf import pys
from vf.checks.c01 import BV_BIN, BV_UN

warnings.filterwarnings("ignore", message=".*Division by 0.*")

PID = "C02"
RULE = ("QF, UF-free blueprints of every result sort x total/partial assignments of constants (incl. nested "
        "array values) x completion flag, evaluated through EagerModel.get_value / get_py_value / [] / "
        "satisfies and compared with the reference evaluator; plus every BV operator x every operand value at "
        "widths 1..W with the operands as symbols. non-trivial = >=2 operators and >=1 symbol; distinct by "
        "(blueprint, assignment) hash")

COMPLETABLE = lambda t: t in (BOOL, INT, REAL) or is_bv(t)


def value_bp(ty, v):
    if is_arr(ty):
        ch = [value_bp(ty[2], v.default)]
        for k, x in v.items.items():
            ch += [value_bp(ty[1], k), value_bp(ty[2], x)]
        return ("ARRAY_VALUE", (ty[1],), tuple(ch))
    return const(ty, v)


def pyvalue_matches(pv, ty, v):
    if is_arr(ty):
        return True
    if ty == BOOL:
        return isinstance(pv, bool) and pv == v
    return (not isinstance(pv, bool)) and pv == v


def model_outcome(bp, assign, present, completion, cards=None):
    """-> (kind, detail) or None.  assign: name->value for every free symbol,
    present: names that are in the model."""
    env = Environment()
    with env:
        try:
            f = pys.build(env, bp)
        except Exception:
            return ("skip-rejected", "")
        b0 = pys.decode(f)
        try:
            ty = reftype(b0)
        except IllTyped as e:
            return ("skip-illtyped", str(e))
        syms = {n: t for (n, t) in reffv(b0)}
        massign = {}
        for n, t in syms.items():
            if n in present:
                massign[pys.build(env, sym(n, t))] = pys.build(env, value_bp(t, assign[n]))
        model = EagerModel(massign, env)
        missing = [n for n in syms if n not in present]
        full = dict(assign)
        for n in missing:
            full[n] = default_value(syms[n])
        try:
            expected = Evaluator(full, {}).eval(b0)
        except Unconstrained:
            return ("skip-unconstrained", "")
        uncompletable = any(not COMPLETABLE(syms[n]) for n in missing)

        def denote(res):
            rb = pys.decode(res)
            return Evaluator({}, {}).eval(rb)

        if completion or not missing:
            calls = [("get_value", lambda: model.get_value(f, model_completion=completion)),
                     ("getitem", lambda: model[f])]
            for name, call in calls:
                try:
                    res = call()
                except Exception as e:
                    if uncompletable:
                        continue
                    return (name + "-raised", "%s: %s" % (type(e).__name__, e))
                if not res.is_constant():
                    return (name + "-nonconstant", str(res))
                if pys.from_ptype(res.get_type()) != ty:
                    return (name + "-type", "%s vs %r" % (res.get_type(), ty))
                got = denote(res)
                if not val_eq(got, expected, ty, {}):
                    return (name + "-value", "expected %r got %r" % (expected, got))
            # the multi-formula entry points
            try:
                vs = model.get_values([f], model_completion=completion)
                if list(vs.keys()) != [f] or not val_eq(denote(vs[f]), expected, ty, {}):
                    return ("get_values-value", "expected %r got %r" % (expected, vs))
                if not is_arr(ty):
                    pvs = model.get_py_values([f], model_completion=completion)
                    if not pyvalue_matches(pvs[f], ty, expected):
                        return ("get_py_values-value", "expected %r got %r" % (expected, pvs))
            except Exception as e:
                if not uncompletable:
                    return ("get_values-raised", "%s: %s" % (type(e).__name__, e))
            if not is_arr(ty):
                try:
                    pv = model.get_py_value(f, model_completion=completion)
                except Exception as e:
                    if not uncompletable:
                        return ("get_py_value-raised", "%s: %s" % (type(e).__name__, e))
                else:
                    if not pyvalue_matches(pv, ty, expected):
                        return ("get_py_value-value", "expected %r got %r" % (expected, pv))
            if ty == BOOL:
                try:
                    sat = model.satisfies(f)
                except Exception as e:
                    if not uncompletable:
                        return ("satisfies-raised", "%s: %s" % (type(e).__name__, e))
                else:
                    if sat is not expected and sat != expected:
                        return ("satisfies-value", "expected %r got %r" % (expected, sat))
        else:
            # no completion, symbols missing: raise, or a value valid for every completion
            try:
                res = model.get_value(f, model_completion=False)
            except Exception:
                # the multi-formula entry point must not complete either
                try:
                    vs = model.get_values([f], model_completion=False)
                except Exception:
                    return None
                res = vs[f]
                if res.is_constant():
                    got = denote(res)
                    for flip in range(3):
                        alt = dict(full)
                        for n in missing:
                            alt[n] = _other_value(syms[n], flip)
                        try:
                            ev = Evaluator(alt, {}).eval(b0)
                        except Unconstrained:
                            continue
                        if not val_eq(got, ev, ty, {}):
                            return ("get_values-nocompletion-value", "get_value raises but get_values returned %r; completion %r gives %r" % (
                                got, {n: alt[n] for n in missing}, ev))
                return None
            if not res.is_constant():
                return ("nocompletion-nonconstant", str(res))
            got = denote(res)
            # the default completion is one completion; try a few others
            alts = [full]
            for flip in range(3):
                alt = dict(full)
                for n in missing:
                    alt[n] = _other_value(syms[n], flip)
                alts.append(alt)
            for alt in alts:
                try:
                    ev = Evaluator(alt, {}).eval(b0)
                except Unconstrained:
                    continue
                if not val_eq(got, ev, ty, {}):
                    return ("nocompletion-value", "returned %r but completion %r gives %r" % (
                        got, {n: alt[n] for n in missing}, ev))
    return None


def _other_value(ty, k):
    from fractions import Fraction
    if ty == BOOL:
        return k % 2 == 0
    if ty == INT:
        return [1, -1, 7][k]
    if ty == REAL:
        return [Fraction(1), Fraction(-1, 2), Fraction(5)][k]
    if ty == STRING:
        return ["a", "12", "ab"][k]
    if is_bv(ty):
        return [1 % (1 << ty[1]), (1 << ty[1]) - 1, (1 << ty[1]) >> 1][k]
    if is_arr(ty):
        return ArrV(_other_value(ty[2], k))
    raise ValueError(ty)


def judge(run, bp, assign, present, completion, subcheck):
    try:
        out = model_outcome(bp, assign, present, completion)
    except NoSemantics:
        run.discard("no-semantics")
        return
    syms = reffv(bp)
    nontriv = B.size(bp) - len(syms) >= 2 and len(syms) >= 1
    run.case(key=(bp, sorted(assign.items(), key=repr), sorted(present), completion), nontrivial=nontriv,
             sample={"formula": show(bp, 160), "assignment": repr({k: assign[k] for k in present})[:160],
                     "completion": completion} if nontriv else None)
    for o in B.ops_of(bp):
        run.cls("op:" + o)
    run.cls("partial" if len(present) < len(syms) else "total")
    run.cls("completion" if completion else "no-completion")
    if out is None:
        return
    kind, detail = out
    if kind.startswith("skip-"):
        run.discard(kind[5:])
        return

    def fails(sub):
        o2 = model_outcome(sub, assign, present, completion)
        return o2 is not None and o2[0] == kind
    loc = localise(bp, fails)
    sig = {"subcheck": "model:" + kind, "op": loc[0], "class": child_kinds(loc)}
    run.fail(sig, {"bp": bp, "assign": assign, "present": sorted(present), "completion": completion,
                   "localised": loc},
             "%s: %s\n formula=%s\n assignment=%r present=%r completion=%r\n minimal sub-term=%s" % (
                 kind, detail, show(bp), assign, sorted(present), completion, show(loc)))


def sequence_outcome(bp, steps):
    """Several models of one environment asked in a row about sub-terms of one formula (a model object is cheap
    and evaluation goes through the environment's long-lived substituter / simplifier): every answer must be the
    exact value, whatever was asked - or failed - before.  steps: [(sub-term index, assign, present, completion)]
    -> None | (kind, detail, step index)"""
    env = Environment()
    with env:
        try:
            f = pys.build(env, bp)
        except Exception:
            return ("skip-rejected", "", 0)
        b0 = pys.decode(f)
        subs = [x for x in B.subterms(b0) if x[0] not in ("CONST",)] or [b0]
        syms = {n: t for (n, t) in reffv(b0)}
        nfailed = 0
        for idx, (si, assign, present, completion) in enumerate(steps):
            sb = subs[si % len(subs)]
            try:
                ty = reftype(sb)
            except IllTyped:
                continue
            if is_fun(ty):
                continue
            sf = pys.build(env, sb)
            massign = {pys.build(env, sym(n, t)): pys.build(env, value_bp(t, assign[n])) for n, t in syms.items() if n in present}
            model = EagerModel(massign, env)
            ssyms = {n: t for (n, t) in reffv(sb)}
            missing = [n for n in ssyms if n not in present]
            full = dict(assign)
            for n in missing:
                full[n] = default_value(ssyms[n])
            try:
                expected = Evaluator(full, {}).eval(sb)
            except Unconstrained:
                expected = None
            legit_fail = expected is None or (missing and (not completion or any(not COMPLETABLE(ssyms[n]) for n in missing)))
            try:
                res = model.get_value(sf, model_completion=completion)
            except Exception as e:
                if legit_fail:
                    nfailed += 1
                    continue
                return ("sequence-raised", "step %d: %s: %s" % (idx, type(e).__name__, e), idx)
            if legit_fail:
                continue
            if not res.is_constant():
                return ("sequence-nonconstant", "step %d: %s" % (idx, res), idx)
            got = Evaluator({}, {}).eval(pys.decode(res))
            if not val_eq(got, expected, ty, {}):
                return ("sequence-value", "step %d: sub-term %s under %r: expected %r got %r (%d earlier evaluations failed)" % (
                    idx, show(sb, 120), {k: assign[k] for k in present if k in ssyms}, expected, got, nfailed), idx)
    return ("ok", nfailed, len(steps))


def judge_sequence(run, bp, steps):
    try:
        out = sequence_outcome(bp, steps)
    except NoSemantics:
        run.discard("no-semantics")
        return
    if out[0] == "skip-rejected":
        run.discard("rejected")
        return
    run.case(key=("seq", bp, repr(steps)), nontrivial=len(steps) >= 2,
             sample={"formula": show(bp, 120), "steps": len(steps)} if len(steps) > 2 else None)
    run.cls("sequence")
    if out[0] == "ok":
        if out[1]:
            run.cls("sequence-with-failed-evaluation")
        return
    run.fail({"subcheck": "model:" + out[0]}, {"bp": bp, "steps": steps},
             "%s: %s\n formula=%s" % (out[0], out[1], show(bp)))


def sequence_strategy(cfg):
    @st.composite
    def s(draw):
        g = G(cfg=cfg, rnd=draw(st.randoms(use_true_random=True)))
        t = g.term(g.ty())
        syms = sorted(reffv(t), key=repr)
        steps = []
        for _ in range(g.rnd.randint(2, 5)):
            assign = g.interp(syms, {})
            present = [n for (n, _) in syms if g.pct(80)]
            steps.append((g.rnd.randrange(64), assign, present, g.pct(50)))
        return t, steps
    return s()


def shard_sequence(shard, seed, n, cfgname):
    run = Run(PID)

    def body(case):
        judge_sequence(run, *case)
    drive(body, sequence_strategy(CFGS[cfgname]), n, derive_seed(seed, "c02seq", cfgname, shard))
    return run


CFGS = {
    "general": Cfg(theories={"bool", "int", "real", "bv", "str", "arr"}, max_depth=4, pow=True),
    "shallow": Cfg(theories={"bool", "int", "real", "bv", "str", "arr"}, max_depth=2, same_child=20),
    "str": Cfg(theories={"bool", "int", "str"}, max_depth=3),
    "bv": Cfg(theories={"bool", "bv"}, bv_widths=[1, 2, 3, 4, 8, 33], max_depth=4),
    "arr": Cfg(theories={"bool", "int", "bv", "arr"}, bv_widths=[1, 2, 4], max_depth=4),
    "arith": Cfg(theories={"bool", "int", "real"}, max_depth=4, pow=True),
}


def case_strategy(cfg):
    @st.composite
    def s(draw):
        g = G(cfg=cfg, rnd=draw(st.randoms(use_true_random=True)))
        t = g.term(g.ty())
        syms = sorted(reffv(t), key=repr)
        assign = g.interp(syms, {})
        mode = g.weighted([(5, "total"), (3, "partial-completion"), (2, "partial-nocompletion")])
        present = [n for (n, _) in syms]
        completion = True
        if mode != "total" and present:
            present = [n for n in present if g.pct(55)]
            completion = mode == "partial-completion"
        elif g.pct(20):
            completion = False
        return t, assign, present, completion
    return s()


def shard_random(shard, seed, n, cfgname):
    run = Run(PID)

    def body(case):
        judge(run, *case, subcheck="random/" + cfgname)
    drive(body, case_strategy(CFGS[cfgname]), n, derive_seed(seed, "c02", cfgname, shard))
    return run


def shard_bv(shard, nshards, wmax):
    run = Run(PID)
    idx = 0
    for w in range(1, wmax + 1):
        x, y = sym("x", BV(w)), sym("y", BV(w))
        forms = [app(o, x, y) for o in BV_BIN] + [app(o, x) for o in BV_UN]
        forms += [app(o, x, params=(k,)) for o in ("BV_ROL", "BV_ROR") for k in range(w + 1)]
        forms += [app(o, x, params=(k,)) for o in ("BV_ZEXT", "BV_SEXT") for k in range(3)]
        forms += [app("BV_EXTRACT", x, params=(s, e)) for s in range(w) for e in range(s, w)]
        for f in forms:
            idx += 1
            if idx % nshards != shard:
                continue
            two = len(reffv(f)) == 2
            for u in range(1 << w):
                for v in (range(1 << w) if two else [0]):
                    judge(run, f, {"x": u, "y": v} if two else {"x": u}, ["x", "y"] if two else ["x"], True,
                          "bv-exhaustive")
    return run


def shard_enum(shard, nshards, stride, offset):
    """Bounded-exhaustive: every one- and two-operator term (vf/enumterms.py) under several total assignments."""
    import itertools
    from vf import enumterms
    from vf.checks.c01 import enum_interps
    run = Run(PID)
    idx = 0
    for t in itertools.chain((x for v in enumterms.depth1().values() for x in v), enumterms.depth2()):
        idx += 1
        if idx % nshards != shard or (idx // nshards) % stride != offset % stride:
            continue
        its = enum_interps(t)
        step = max(1, len(its) // 3)
        for I in its[(idx // 7) % step::step][:3]:
            judge(run, t, I, sorted(I), True, "enumerated")
        run.cls("enumerated-two-operator-term")
    return run


def main():
    chk = Check(PID, "exploration", RULE, assumptions=[
        "reference evaluator vf/refsem.py transcribes SMT-LIB 2.6 theory semantics",
        "completion of String/Array symbols is not documented: an exception there is accepted",
        "assignments evaluating an Int/Real division by zero are discarded"])
    thorough = chk.tier == "thorough"
    per = 30000 if thorough else 2000
    wmax = 5 if thorough else 4
    jobs = []
    for name, wgt in {"general": 4, "shallow": 3, "str": 2, "bv": 2, "arr": 3, "arith": 2}.items():
        for sh in range(wgt):
            jobs.append((shard_random, dict(shard=sh, seed=chk.seed, n=per, cfgname=name)))
    for name in ("general", "arith", "arr", "shallow"):
        jobs.append((shard_sequence, dict(shard=0, seed=chk.seed, n=per // 2, cfgname=name)))
    nb = 8
    for sh in range(nb):
        jobs.append((shard_bv, dict(shard=sh, nshards=nb, wmax=wmax)))
    for sh in range(16):
        jobs.append((shard_enum, dict(shard=sh, nshards=16, stride=1 if thorough else 8, offset=chk.seed)))
    chk.add(run_shards(jobs))
    chk.floor("sequence-with-failed-evaluation", 100)
    chk.floor("enumerated-two-operator-term", 10000)
    chk.exhaustive.append("every BV operator x every operand value (operands as symbols), widths 1..%d" % wmax)
    chk.floor("partial", 1000)
    chk.floor("no-completion", 1000)
    for o in ("ARRAY_STORE", "ARRAY_SELECT", "STR_SUBSTR", "STR_INDEXOF", "DIV", "BV_SDIV", "BV_ASHR", "ITE"):
        chk.floor("op:" + o, 20)
    return chk.finish()


def replay(rec):
    run = Run(PID, known=[])
    c = rec["case"]
    if "steps" in c:
        judge_sequence(run, c["bp"], [tuple(x) for x in c["steps"]])
    else:
        judge(run, c["bp"], c["assign"], c["present"], c["completion"], "replay")
    if run.violations:
        print("VIOLATION property=%s replay=(replayed)" % PID)
        print(run.violations[0]["detail"])
        return 1
    print("replay: no violation")
    return 0
