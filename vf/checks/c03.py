"""C03 - every formula that exists is well-typed; ill-typed applications are rejected.

(a) every FormulaManager constructor x every tuple of argument sorts from a basis (enumerated);
(b) closure: every node of every formula returned by the transformations is well-typed.
"""
import itertools
import warnings
from fractions import Fraction

from hypothesis import strategies as st

from pysmt.environment import Environment

from vf import bp as B
from vf.bp import BOOL, INT, REAL, STRING, BV, ARR, SORT, FUN, is_bv, is_arr, is_fun, sym, show, tystr
from vf.refsem import reftype, IllTyped, reffv
from vf.gen import G, Cfg
from vf.harness import Run, Check, run_shards, drive, derive_seed
from vf import pys

warnings.filterwarnings("ignore")

PID = "C03"
RULE = ("(a) every public FormulaManager constructor (core, derived, indexed) x every tuple of argument sorts from the "
        "basis {Bool, Int, Real, String, BV1, BV4, BV8, Array(Int,Int), Array(BV4,BV8), Array(Int,Bool), S, function "
        "symbol} at the arities its signature admits x parameter values {-1,0,1,w-1,w,w+1}: if it returns, the "
        "application must be well-typed by the reference rules and get_type() must equal the reference type; if it is "
        "ill-typed it must raise.  (b) every node of every formula returned by simplify / substitute / nnf / cnf / aig / "
        "prenex / TimesDistributor / Ackermannizer / qelim / propagate_toplevel / normalize / SMT-LIB and HR parsers on "
        "generated inputs is well-typed.  non-trivial = an ill-typed tuple or a well-typed tuple with a non-Bool sort; "
        "distinct by (constructor, sort tuple, parameters)")

S1 = SORT("S")
FT = FUN(INT, (REAL,))
FT2 = FUN(REAL, (INT,))
# a declared sort that merely has the name of a built-in one is another sort
SINT = SORT("Int")
BASIS = [BOOL, INT, REAL, STRING, BV(1), BV(4), BV(8), ARR(INT, INT), ARR(BV(4), BV(8)), ARR(INT, BOOL), S1, FT, FT2, SINT]


def basis_term(env, ty, k=0, form="symbol"):
    """The k-th argument of sort `ty`: a symbol, a constant (constructors have folding shortcuts that must
    not bypass the typing rules) or a compound term (an ITE over two symbols)."""
    label = "declIntSort" if ty == SINT else tystr(ty)
    x = sym("x%s_%d" % (label, k), ty)
    if form in ("zero", "one"):
        # the neutral / absorbing constants, where constructors take their shortcuts
        v = 0 if form == "zero" else 1
        if ty == BOOL:
            return pys.build(env, B.const(BOOL, bool(v)))
        if ty == INT:
            return pys.build(env, B.const(INT, v))
        if ty == REAL:
            return pys.build(env, B.const(REAL, Fraction(v)))
        if ty == STRING:
            return pys.build(env, B.const(STRING, "" if v == 0 else "1"))
        if is_bv(ty):
            return pys.build(env, B.const(ty, v))
        form = "constant"
    if form == "constant":
        if ty == BOOL:
            return pys.build(env, B.const(BOOL, k % 2 == 0))
        if ty == INT:
            return pys.build(env, B.const(INT, k + 2))
        if ty == REAL:
            return pys.build(env, B.const(REAL, Fraction(k + 2)))
        if ty == STRING:
            return pys.build(env, B.const(STRING, "ab"[:k % 2 + 1]))
        if is_bv(ty):
            return pys.build(env, B.const(ty, (k + 1) % (1 << ty[1])))
        if is_arr(ty) and ty[2] in (INT, BOOL) or (is_arr(ty) and is_bv(ty[2])):
            d = B.const(ty[2], (k % 2 == 0) if ty[2] == BOOL else (k + 1) % (1 << ty[2][1]) if is_bv(ty[2]) else k + 2)
            return pys.build(env, ("ARRAY_VALUE", (ty[1],), (d,)))
        return pys.build(env, x)
    if form == "term" and not is_fun(ty):
        c = sym("c_%d" % k, BOOL)
        y = sym("y%s_%d" % (label, k), ty)
        return pys.build(env, ("ITE", (), (c, x, y)))
    return pys.build(env, x)


FORMS = ("symbol", "constant", "term", "zero", "one")


# ---- expected signatures: fn(list of types[, params]) -> type or None (= ill-typed)

def _same(ts):
    return all(t == ts[0] for t in ts)


def _arith(ts):
    return _same(ts) and ts[0] in (INT, REAL)


def _bvs(ts):
    return _same(ts) and is_bv(ts[0])


def sig_bool(ts):
    return BOOL if all(t == BOOL for t in ts) else None


def sig_arith(ts):
    return ts[0] if ts and _arith(ts) else None


def sig_arith_rel(ts):
    return BOOL if _arith(ts) else None


def sig_bv(ts):
    return ts[0] if ts and _bvs(ts) else None


def sig_bv_rel(ts):
    return BOOL if ts and _bvs(ts) else None


def sig_eq(ts):
    return BOOL if _same(ts) and ts[0] != BOOL else None


def sig_eqoriff(ts):
    return BOOL if _same(ts) else None


def sig_exact(*want, ret=None):
    want = list(want)
    return lambda ts: ret if list(ts) == want else None


UNARY = {
    "Not": sig_bool, "ToReal": lambda ts: REAL if ts[0] in (INT, REAL) else None,
    "BVNot": sig_bv, "BVNeg": sig_bv,
    "StrLength": sig_exact(STRING, ret=INT), "StrToInt": sig_exact(STRING, ret=INT),
    "IntToStr": sig_exact(INT, ret=STRING),
    "BVToNatural": lambda ts: INT if is_bv(ts[0]) else None,
}
BINARY = {
    "Implies": sig_bool, "Iff": sig_bool, "Xor": sig_bool,
    "Minus": sig_arith, "Div": sig_arith,
    "LE": sig_arith_rel, "LT": sig_arith_rel, "GE": sig_arith_rel, "GT": sig_arith_rel,
    "Equals": sig_eq, "NotEquals": sig_eq, "EqualsOrIff": sig_eqoriff,
    "BVXor": sig_bv, "BVSub": sig_bv, "BVUDiv": sig_bv, "BVURem": sig_bv, "BVLShl": sig_bv, "BVLShr": sig_bv,
    "BVAShr": sig_bv, "BVSDiv": sig_bv, "BVSRem": sig_bv, "BVNand": sig_bv, "BVNor": sig_bv, "BVXnor": sig_bv,
    "BVSMod": sig_bv,
    "BVULT": sig_bv_rel, "BVUGT": sig_bv_rel, "BVULE": sig_bv_rel, "BVUGE": sig_bv_rel,
    "BVSLT": sig_bv_rel, "BVSLE": sig_bv_rel, "BVSGT": sig_bv_rel, "BVSGE": sig_bv_rel,
    "BVComp": lambda ts: BV(1) if _bvs(ts) else None,
    "StrContains": sig_exact(STRING, STRING, ret=BOOL), "StrPrefixOf": sig_exact(STRING, STRING, ret=BOOL),
    "StrSuffixOf": sig_exact(STRING, STRING, ret=BOOL), "StrCharAt": sig_exact(STRING, INT, ret=STRING),
    "Select": lambda ts: ts[0][2] if is_arr(ts[0]) and ts[0][1] == ts[1] else None,
}
TERNARY = {
    "Ite": lambda ts: ts[1] if ts[0] == BOOL and ts[1] == ts[2] else None,
    "StrIndexOf": sig_exact(STRING, STRING, INT, ret=INT), "StrReplace": sig_exact(STRING, STRING, STRING, ret=STRING),
    "StrSubstr": sig_exact(STRING, INT, INT, ret=STRING),
    "Store": lambda ts: ts[0] if is_arr(ts[0]) and ts[0][1] == ts[1] and ts[0][2] == ts[2] else None,
}
NARY = {   # name -> (sig, min arity for which an ill-typed tuple must be rejected)
    "And": (sig_bool, 2), "Or": (sig_bool, 2), "AtMostOne": (sig_bool, 2), "ExactlyOne": (sig_bool, 1),
    "Plus": (sig_arith, 2), "Times": (sig_arith, 2), "Min": (sig_arith, 2), "Max": (sig_arith, 2),
    "AllDifferent": (lambda ts: BOOL if _same(ts) else None, 2),
    "BVAnd": (sig_bv, 2), "BVOr": (sig_bv, 2), "BVAdd": (sig_bv, 2), "BVMul": (sig_bv, 2),
    "BVConcat": (lambda ts: BV(sum(t[1] for t in ts)) if all(is_bv(t) for t in ts) else None, 2),
    "StrConcat": (lambda ts: STRING if all(t == STRING for t in ts) else None, 2),
}


def sig_indexed(name, ts, ps):
    t = ts[0]
    if not is_bv(t):
        return None
    w = t[1]
    if name == "BVExtract":
        s, e = ps
        return BV(e - s + 1) if 0 <= s <= e < w else None
    k = ps[0]
    if name in ("BVRol", "BVRor"):
        return t if k >= 0 else None
    if name in ("BVZExt", "BVSExt"):
        return BV(w + k) if k >= 0 else None
    if name == "BVRepeat":
        return BV(w * k) if k >= 1 else None
    raise KeyError(name)


def applications():
    """(label, name, arg types, params, build(mgr, args), expected type or None, must_reject_if_illtyped)"""
    for name, sg in UNARY.items():
        for t in BASIS:
            yield (name, (t,), (), lambda m, a, n=name: getattr(m, n)(a[0]), sg([t]), True)
    for name, sg in BINARY.items():
        for ts in itertools.product(BASIS, repeat=2):
            yield (name, ts, (), lambda m, a, n=name: getattr(m, n)(a[0], a[1]), sg(list(ts)), True)
    for name, sg in TERNARY.items():
        for ts in itertools.product(BASIS, repeat=3):
            yield (name, ts, (), lambda m, a, n=name: getattr(m, n)(*a), sg(list(ts)), True)
    for name, (sg, minar) in NARY.items():
        for n in (1, 2, 3):
            if name in ("BVConcat", "StrConcat") and n == 1:
                continue
            for ts in itertools.product(BASIS, repeat=n):
                yield (name, ts, ("varargs",), lambda m, a, nm=name: getattr(m, nm)(*a), sg(list(ts)), n >= minar)
                if n == 2:
                    yield (name, ts, ("list",), lambda m, a, nm=name: getattr(m, nm)(list(a)), sg(list(ts)), n >= minar)
    for sign in (False, True):
        for name in ("MinBV", "MaxBV"):
            for n in (1, 2, 3):
                for ts in itertools.product(BASIS, repeat=n):
                    yield (name, ts, (sign,), lambda m, a, nm=name, s=sign: getattr(m, nm)(s, *a), sig_bv(list(ts)), n >= 2)
    for t in BASIS:
        w = t[1] if is_bv(t) else 4
        ks = sorted({-1, 0, 1, w - 1, w, w + 1})
        for name in ("BVRol", "BVRor", "BVZExt", "BVSExt", "BVRepeat"):
            for k in ks:
                yield (name, (t,), (k,), lambda m, a, nm=name, k=k: getattr(m, nm)(a[0], k),
                       sig_indexed(name, [t], (k,)), name != "BVRepeat" or k != 1)
        for s in ks:
            for e in ks:
                yield ("BVExtract", (t,), (s, e), lambda m, a, s=s, e=e: m.BVExtract(a[0], s, e),
                       sig_indexed("BVExtract", [t], (s, e)), True)
    # Pow: exponent must be a constant
    for t in BASIS:
        for et in (INT, REAL):
            yield ("Pow", (t, et), ("const-exp",),
                   lambda m, a, et=et: m.Pow(a[0], m.Int(2) if et == INT else m.Real(2)),
                   REAL if t == et else None, True)
    for t in BASIS:
        for et in (BOOL, STRING, BV(4), BV(8)):
            yield ("Pow", (t, et), ("const-exp:" + tystr(et),),
                   lambda m, a, et=et: m.Pow(a[0], pys.build_const(m.env, et, "a" if et == STRING else 1)),
                   None, True)
    # quantifiers: variables x body
    for q in ("ForAll", "Exists"):
        for vt in BASIS:
            for bt in BASIS:
                yield (q, (vt, bt), ("1var",), lambda m, a, q=q: getattr(m, q)([a[0]], a[1]),
                       BOOL if bt == BOOL else None, True)
        for bt in (BOOL, INT):
            yield (q, (INT, bt), ("non-symbol-binder",),
                   lambda m, a, q=q: getattr(m, q)([m.Plus(a[0], m.Int(1))], a[1]), None, True)
            # ... in every position of a longer binder list
            yield (q, (INT, bt), ("non-symbol-binder-2nd",),
                   lambda m, a, q=q: getattr(m, q)([a[0], m.Int(3)], a[1]), None, True)
            yield (q, (INT, INT, bt), ("non-symbol-binder-3rd",),
                   lambda m, a, q=q: getattr(m, q)([a[0], a[1], m.Plus(a[0], m.Int(1))], a[2]), None, True)
            yield (q, (INT, INT, bt), ("non-symbol-binder-middle",),
                   lambda m, a, q=q: getattr(m, q)([a[0], m.Times(a[0], a[0]), a[1]], a[2]), None, True)
            yield (q, (INT, INT, bt), ("2vars",),
                   lambda m, a, q=q: getattr(m, q)([a[0], a[1]], a[2]), BOOL if bt == BOOL else None, True)
    # function application
    for ft in (FT, FUN(BOOL, (BV(4), REAL)), FUN(S1, (S1,))):
        for n in (1, 2):
            for ts in itertools.product(BASIS, repeat=n):
                yield ("Function", ts, (tystr(ft),),
                       lambda m, a, ft=ft: m.Function(m.env.formula_manager.Symbol("fn" + tystr(ft), pys.to_ptype(m.env, ft)), list(a)),
                       ft[1] if tuple(ts) == ft[2] else None, True)
    # array values
    for it in (INT, BV(4), REAL):
        for dt in BASIS:
            yield ("Array", (dt,), (tystr(it), "no-assign"),
                   lambda m, a, it=it: m.Array(pys.to_ptype(m.env, it), a[0]),
                   ARR(it, dt), True)
            for kt in (INT, BV(4), REAL, BOOL):
                for vt in BASIS:
                    yield ("Array", (dt, vt), (tystr(it), "key:" + tystr(kt)),
                           lambda m, a, it=it, kt=kt: m.Array(pys.to_ptype(m.env, it), a[0],
                                                              {pys.build_const(m.env, kt, _zero(kt)): a[1]}),
                           ARR(it, dt) if (kt == it and vt == dt) else None, True)


def constant_applications():
    """Constant constructors at and around the boundaries of their documented domains.
    -> (label, thunk(mgr), expected (type, value) | None = must be rejected)"""
    for w in (1, 2, 8, 33):
        M = 1 << w
        for v in (-1, 0, 1, M - 1, M, M + 1, 2 * M):
            ok = 0 <= v < M
            yield ("BV(%d, %d)" % (v, w), lambda m, v=v, w=w: m.BV(v, w), (BV(w), v) if ok else None)
            yield ("BV(%d, width=%d)" % (v, w), lambda m, v=v, w=w: m.BV(v, width=w), (BV(w), v) if ok else None)
        H = M >> 1
        for v in (-H - 1, -H, -1, 0, H - 1, H, M - 1, M):
            ok = -H <= v <= H - 1
            yield ("SBV(%d, %d)" % (v, w), lambda m, v=v, w=w: m.SBV(v, w), (BV(w), v % M) if ok else None)
        for bits in ("0" * w, "1" * w, "1" + "0" * (w - 1)):
            yield ("BV(%r)" % bits, lambda m, b=bits: m.BV(b), (BV(w), int(bits, 2)))
            yield ("BV('#b%s')" % bits, lambda m, b=bits: m.BV("#b" + b), (BV(w), int(bits, 2)))
            yield ("BV(%r, %d)" % (bits, w + 1), lambda m, b=bits, w=w: m.BV(b, w + 1), None)
        yield ("BV('', %d)" % w, lambda m, w=w: m.BV("012", w), None)
        yield ("BV(1.0, %d)" % w, lambda m, w=w: m.BV(1.0, w), None)
        yield ("BVZero(%d)" % w, lambda m, w=w: m.BVZero(w), (BV(w), 0))
        yield ("BVOne(%d)" % w, lambda m, w=w: m.BVOne(w), (BV(w), 1))
    yield ("BV(1) without width", lambda m: m.BV(1), None)
    # SMT-LIB: (_ BitVec m) with m > 0
    for w in (2.5, 5.0):
        # ... and m a numeral: a float width is no sort (also when the equal integer width exists already)
        tag = str(w).replace(".", "_")
        yield ("Symbol(BVType(%r))" % w, lambda m, w=w, tag=tag: m.Symbol("zf" + tag, m.env.type_manager.BVType(w)), None)
        yield ("BV(1, %r)" % w, lambda m, w=w: m.BV(1, w), None)
    yield ("Symbol(BVType(5.0)) after BVType(5)",
           lambda m: (m.env.type_manager.BVType(5), m.Symbol("zg5_0", m.env.type_manager.BVType(5.0)))[1], None)
    for w in (0, -1):
        yield ("BV(0, %d)" % w, lambda m, w=w: m.BV(0, w), None)
        yield ("BVZero(%d)" % w, lambda m, w=w: m.BVZero(w), None)
        yield ("Symbol(BVType(%d))" % w, lambda m, w=w: m.Symbol("zw", m.env.type_manager.BVType(w)), None)
    for v, ok in ((0, True), (-7, True), (2 ** 70, True), (1.5, False), (1.0, False), (Fraction(1, 2), False),
                  (Fraction(2), False), ("1", False), (True, False), (None, False)):
        yield ("Int(%r)" % (v,), lambda m, v=v: m.Int(v), (INT, v) if ok else None)
    for v, want in ((0, Fraction(0)), (-7, Fraction(-7)), (Fraction(-3, 4), Fraction(-3, 4)), (0.5, Fraction(1, 2)),
                    (0.1, Fraction(0.1)), ((1, 3), Fraction(1, 3)), ((2, -4), Fraction(-1, 2)), ((1, 0), None),
                    ("1/2", None), (True, None), (None, None)):
        yield ("Real(%r)" % (v,), lambda m, v=v: m.Real(v), (REAL, want) if want is not None else None)
    for v, ok in ((True, True), (False, True), (1, False), (0, False), ("true", False), (None, False)):
        yield ("Bool(%r)" % (v,), lambda m, v=v: m.Bool(v), (BOOL, v) if ok else None)
    for v, ok in (("", True), ("a b", True), ('q"q', True), (1, False), (None, False), (b"x", False)):
        yield ("String(%r)" % (v,), lambda m, v=v: m.String(v), (STRING, v) if ok else None)


def shard_constants():
    run = Run(PID)
    # each application in a fresh environment and, again, in one that already holds equal-valued constants of
    # other sorts (the constant caches are keyed by value)
    for warm in (False, True):
        for label, thunk, expected in itertools.chain(constant_applications(), array_default_valued_entries()):
            env = Environment()
            with env:
                m = env.formula_manager
                if warm:
                    for k in (0, 1, 2, 7):
                        m.Int(k), m.Real(k), m.BV(k % 2, 1), m.BV(k, 8)
                    m.Bool(True), m.Bool(False), m.Real(Fraction(1, 2)), m.String("1")
                try:
                    r = thunk(m)
                    raised = None
                except Exception as e:
                    raised = e
                lab = label + (" (warm caches)" if warm else "")
                run.case(key=lab, nontrivial=True, sample={"application": lab, "outcome": "raised" if raised else str(r)}
                         if expected is None and not warm and len(lab) < 16 else None)
                run.cls("constant-ctor:" + ("rejected" if raised else "returned"))
                case = {"constant": label, "warm": warm}
                if expected is None:
                    if raised is None:
                        run.fail({"subcheck": "constant:accepted-out-of-domain", "ctor": label.split("(")[0]}, case,
                                 "%s returned %s : %s although the value is outside the constructor's domain" % (lab, r, r.get_type()))
                    continue
                if raised is not None:
                    run.fail({"subcheck": "constant:rejected-in-domain", "ctor": label.split("(")[0]}, case,
                             "%s raised %s: %s" % (lab, type(raised).__name__, raised))
                    continue
                ty, v = expected
                if v is None:
                    if pys.from_ptype(r.get_type()) != ty:
                        run.fail({"subcheck": "constant:wrong-constant", "ctor": label.split("(")[0]}, case,
                                 "%s returned %s : %s, expected sort %r" % (lab, r, r.get_type(), ty))
                    continue
                if not r.is_constant() or pys.from_ptype(r.get_type()) != ty or r.constant_value() != v \
                        or (isinstance(v, bool) != isinstance(r.constant_value(), bool)):
                    run.fail({"subcheck": "constant:wrong-constant", "ctor": label.split("(")[0]}, case,
                             "%s returned %s : %s, expected %r : %r" % (lab, r, r.get_type(), v, ty))
    return run


def sstr(x):
    """str() of a possibly ill-formed node must not take the harness down."""
    try:
        return str(x)
    except BaseException as e:         # noqa
        return "<unprintable node: %s>" % type(e).__name__


def array_default_valued_entries():
    """Array(idx, d, {k: d}) : an entry equal to the default is dropped - its key must be type-checked first."""
    for it in (INT, BV(4), REAL):
        for kt in (INT, BV(4), REAL, BOOL, STRING):
            yield ("Array(%s, 0, {%s-constant: 0})" % (tystr(it), tystr(kt)),
                   lambda m, it=it, kt=kt: m.Array(pys.to_ptype(m.env, it), m.Int(0),
                                                    {pys.build_const(m.env, kt, "a" if kt == STRING else _zero(kt)): m.Int(0)}),
                   (ARR(it, INT), None) if kt == it else None)


def _zero(t):
    if t == BOOL:
        return False
    if t == REAL:
        return Fraction(0)
    return 0


def shard_constructors(shard, nshards):
    run = Run(PID)
    env = Environment()
    with env:
        mgr = env.formula_manager
        for idx, (name, ts, ps, build, expected, must_reject, form) in enumerate(
                (a + (fm,)) for a in applications() for fm in FORMS):
            if idx % nshards != shard:
                continue
            if form != "symbol" and name in ("ForAll", "Exists"):
                continue                      # binders are symbols (the non-symbol class is generated separately)
            args = []
            cnt = {}
            for t in ts:
                k = cnt.get(t, 0)
                cnt[t] = k + 1
                args.append(basis_term(env, t, k, form))
            label = "%s%s(%s)%s" % (name, list(ps) if ps else "", ", ".join(tystr(t) for t in ts),
                                    "" if form == "symbol" else " args=" + form)
            run.cls("args:" + form)
            try:
                r = build(mgr, args)
                raised = None
            except Exception as e:     # any exception class is a rejection
                raised = e
            nontriv = expected is None or any(t != BOOL for t in ts)
            run.case(key=label, nontrivial=nontriv,
                     sample={"application": label, "outcome": "raised " + type(raised).__name__ if raised else "returned",
                             "expected": "ill-typed" if expected is None else tystr(expected)} if idx % 997 == 0 else None)
            if expected is not None and any(is_fun(t) for t in ts) and name != "Function":
                # function symbols as arguments: SMT-LIB has no such terms, pySMT's rules treat a function
                # sort like any other sort.  Either outcome is accepted; a returned formula is still checked.
                run.cls("boundary:function-typed-argument")
                if raised is None and pys.from_ptype(r.get_type()) != expected:
                    run.fail({"subcheck": "constructor:type", "ctor": name},
                             {"ctor": name, "types": list(ts), "params": list(ps), "form": form},
                             "%s: get_type() %r expected %r" % (label, r.get_type(), expected))
                continue
            if raised is not None:
                run.cls("rejected-illtyped" if expected is None else "over-rejected-welltyped")
                if expected is None and must_reject:
                    # a rejected application must stay rejected (no ill-typed node left behind in the table)
                    try:
                        r2 = build(mgr, args)
                    except Exception:
                        r2 = None
                    if r2 is not None:
                        run.fail({"subcheck": "constructor:accepted-illtyped-on-retry", "ctor": name},
                                 {"ctor": name, "types": list(ts), "params": list(ps), "form": form},
                                 "%s raised %s the first time and returned %s the second time" % (
                                     label, type(raised).__name__, sstr(r2)))
                continue
            if expected is None:
                if not must_reject:
                    run.cls("boundary:passthrough")
                    continue
                run.fail({"subcheck": "constructor:accepted-illtyped", "ctor": name,
                          "class": (ps[0] if ps and isinstance(ps[0], str) else "fun-arg" if any(is_fun(t) for t in ts) else "sorts")},
                         {"ctor": name, "types": list(ts), "params": list(ps), "form": form},
                         "%s returned %s although the application is ill-typed" % (label, sstr(r)))
                continue
            run.cls("accepted-welltyped")
            # returned: every node well-typed, reported type == reference type
            try:
                b = pys.decode(r)
                t = reftype(b)
            except (IllTyped, ValueError, AssertionError) as e:
                run.fail({"subcheck": "constructor:result-illtyped", "ctor": name},
                         {"ctor": name, "types": list(ts), "params": list(ps), "form": form}, "%s -> %s: %s" % (label, r, e))
                continue
            got = pys.from_ptype(r.get_type())
            if t != expected or got != expected:
                run.fail({"subcheck": "constructor:type", "ctor": name},
                         {"ctor": name, "types": list(ts), "params": list(ps), "form": form},
                         "%s: reference type %r, structural type %r, get_type() %r" % (label, expected, t, got))
    return run


# ---------------------------------------------------------------- closure

def transformations(env, f, g):
    """name -> thunk producing formula(s)."""
    import pysmt.rewritings as rw
    from pysmt.solvers.qelim import ShannonQuantifierEliminator, SelfSubstitutionQuantifierEliminator
    from pysmt.smtlib.parser import SmtLibParser
    from pysmt.smtlib.script import smtlibscript_from_formula
    from pysmt.parsing import HRParser
    from io import StringIO
    mgr = env.formula_manager
    out = {
        "simplify": lambda: [env.simplifier.simplify(f)],
        "nnf": lambda: [rw.nnf(f, env)],
        "cnf": lambda: [rw.cnf(f, env)],
        "aig": lambda: [rw.aig(f, env)],
        "prenex": lambda: [rw.prenex_normal_form(f, env)],
        "times_distributor": lambda: [rw.TimesDistributor(env).walk(f)],
        "ackermann": lambda: [rw.Ackermannizer(env).do_ackermannization(f)],
        "qelim-shannon": lambda: [ShannonQuantifierEliminator(env).eliminate_quantifiers(f)],
        "qelim-selfsub": lambda: [SelfSubstitutionQuantifierEliminator(env).eliminate_quantifiers(f)],
        "propagate_toplevel": lambda: [rw.propagate_toplevel(f, env)],
        "conj_partition": lambda: list(rw.conjunctive_partition(f)),
        "normalize": lambda: [_normalize_into_used_env(f, g)],
        "normalize-conflict": lambda: _normalize_with_conflict(env, f, g),
        "hr-parse": lambda: [HRParser(env).parse(f.serialize())],
    }

    def smt():
        buf = StringIO()
        smtlibscript_from_formula(f).serialize(buf, daggify=g.pct(50))
        return [SmtLibParser(env).get_script(StringIO(buf.getvalue())).get_last_formula()]
    out["smtlib-parse"] = smt

    def subst():
        fv = sorted(f.get_free_variables(), key=lambda s: s.symbol_name())
        fv = [s for s in fv if not s.symbol_type().is_function_type()]
        if not fv:
            return []
        m = {}
        for s in fv[:2]:
            t = pys.from_ptype(s.symbol_type())
            m[s] = pys.build(env, g.term(t, 2))
        return [env.substituter.substitute(f, m)]
    out["substitute"] = subst
    return out


def _normalize_into_used_env(f, g):
    """Copy into an environment that already holds some unrelated nodes (node ids do not line up with the source)."""
    tgt = Environment()
    m2 = tgt.formula_manager
    for i in range(g.rnd.randint(0, 6)):
        m2.Symbol("junk%d" % i, g.choice([tgt.type_manager.BVType(3), tgt.type_manager.ArrayType(m2.Int(0).get_type(), m2.Real(0).get_type()),
                                          m2.TRUE().get_type(), m2.Real(0).get_type()]))
    return m2.normalize(f)


def _normalize_with_conflict(env, f, g):
    """The target already declares one of the formula's symbols with another sort: the copy must be refused.
    -> [] when refused, else [('resorted', copy, target environment)]"""
    fv = sorted((s_ for s_ in f.get_free_variables() if not s_.symbol_type().is_function_type()), key=lambda s_: s_.symbol_name())
    if not fv:
        return []
    s0 = g.choice(fv)
    tgt = Environment()
    m2 = tgt.formula_manager
    other = m2.Real(0).get_type() if not s0.symbol_type().is_real_type() else m2.Int(0).get_type()
    m2.Symbol(s0.symbol_name(), other)
    try:
        r = m2.normalize(f)
    except Exception:
        return []
    return [("resorted", r, tgt, s0.symbol_name())]


def check_closure(run, bp, g):
    env = Environment()
    with env:
        try:
            f = pys.build(env, bp)
        except Exception:
            run.discard("rejected-by-constructor")
            return
        try:
            t0 = reftype(pys.decode(f))
        except IllTyped:
            run.discard("illtyped-original")
            return
        for name, thunk in transformations(env, f, g).items():
            if t0 != BOOL and name not in ("simplify", "substitute", "normalize", "normalize-conflict", "times_distributor", "hr-parse"):
                continue
            try:
                results = thunk()
            except Exception as e:
                run.discard("raised:" + name)
                continue
            if name == "normalize-conflict":
                run.cls("closure:normalize-conflict")
                for (_, r, tgt, sname) in results:
                    run.case(key=(name, bp), nontrivial=True)
                    run.fail({"subcheck": "closure:normalize-resorted"}, {"bp": bp, "transformation": name},
                             "normalize(%s) into an environment where %r has another sort returned %s instead of raising" % (
                                 show(bp), sname, r))
                continue
            for r in results:
                run.case(key=(name, bp), nontrivial=B.size(bp) >= 3)
                run.cls("closure:" + name)
                try:
                    rb = pys.decode(r)
                    for s in B.subterms(rb):
                        reftype(s)
                    t1 = reftype(rb)
                except (IllTyped, ValueError) as e:
                    run.fail({"subcheck": "closure:illtyped-node", "transformation": name},
                             {"bp": bp, "transformation": name},
                             "%s(%s) = %s contains an ill-typed node: %s" % (name, show(bp), r, e))
                    continue
                with (r in env.formula_manager and env or Environment()):
                    pass
                try:
                    got = pys.from_ptype(r.get_type())      # (for a copy: asked through the source environment's checker)
                except Exception as e:
                    run.fail({"subcheck": "closure:get_type-raised", "transformation": name},
                             {"bp": bp, "transformation": name}, "%s: %s" % (name, e))
                    continue
                if got != t1 or (name != "conj_partition" and t1 != t0):
                    run.fail({"subcheck": "closure:type", "transformation": name},
                             {"bp": bp, "transformation": name},
                             "%s(%s): input type %r, structural %r, get_type() %r" % (name, show(bp), t0, t1, got))


CFG = Cfg(max_depth=4, quant_unbounded=True)
CFG_BOOL = Cfg(max_depth=4, theories={"bool", "int", "bv", "uf", "quant", "arr"}, bv_widths=[1, 2, 4],
               quant_types=[BOOL, BV(1)])


def shard_closure(shard, seed, n):
    run = Run(PID)

    @st.composite
    def strat(draw):
        g = G(cfg=CFG if shard % 2 else CFG_BOOL, rnd=draw(st.randoms(use_true_random=True)))
        ty = BOOL if g.pct(70) else g.ty()
        return g.term(ty), g

    def body(case):
        check_closure(run, case[0], case[1])
    drive(body, strat(), n, derive_seed(seed, "c03", shard))
    return run


def main():
    chk = Check(PID, "exploration", RULE, assumptions=[
        "reference typing rules in vf/refsem.py reftype and the signature table in vf/checks/c03.py (SMT-LIB signatures; "
        "Equals is not defined on Bool, as pySMT documents)",
        "any exception class counts as a rejection; over-rejection of a well-typed application is not a violation",
        "n-ary constructors applied to a single argument return it unchanged (documented); not judged as an application"])
    thorough = chk.tier == "thorough"
    jobs = [(shard_constructors, dict(shard=s, nshards=8)) for s in range(8)]
    for s in range(8):
        jobs.append((shard_closure, dict(shard=s, seed=chk.seed, n=8000 if thorough else 600)))
    jobs.append((shard_constants, dict()))
    chk.add(run_shards(jobs))
    chk.exhaustive.append("constructor x basis-sort tuples x parameter values (all %d applications)" % sum(1 for _ in applications()))
    chk.floor("rejected-illtyped", 20000)
    chk.floor("accepted-welltyped", 300)
    for t in ("simplify", "nnf", "cnf", "prenex", "substitute", "smtlib-parse", "hr-parse", "normalize"):
        chk.floor("closure:" + t, 100)
    return chk.finish()


def replay(rec):
    run = Run(PID, known=[])
    c = rec["case"]
    if "constant" in c:
        r = shard_constants()
        viol = [v for v in r.violations if B.from_json(v["case"]).get("constant") == c["constant"]]
    elif "ctor" in c:
        r = shard_constructors(0, 1)
        bad = [v for v in r.violations if v["case"] == B.to_json(c)]
        r.known = []
        viol = bad or [v for v in r.violations if B.from_json(v["case"]).get("ctor") == c["ctor"]]
    else:
        import random
        g = G(cfg=CFG, rnd=random.Random(0))
        check_closure(run, c["bp"], g)
        viol = run.violations
    if viol:
        print("VIOLATION property=%s replay=(replayed)" % PID)
        print(viol[0]["detail"])
        return 1
    print("replay: no violation")
    return 0
