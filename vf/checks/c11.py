"""C11 - CNF conversion and Ackermannization preserve satisfiability model by model."""
import itertools
import warnings

from hypothesis import strategies as st

from pysmt.environment import Environment
import pysmt.rewritings as rw

from vf import bp as B
from vf.bp import BOOL, INT, REAL, STRING, BV, SORT, FUN, is_bv, is_arr, is_fun, is_sort, show, subterms, app, sym
from vf.refsem import (Evaluator, reftype, reffv, IllTyped, Unconstrained, NoSemantics, FunV, domain_size)
from vf.gen import G, Cfg, exhaustive_interps, all_values, symname
from vf.harness import Run, Check, run_shards, drive, derive_seed
from vf.common import with_timeout, Timeout
from vf import pys

warnings.filterwarnings("ignore")

PID = "C11"
RULE = ("(CNF) QF Boolean formulas with constants, ITE, IFF, shared sub-formulas over real theory atoms; cnf / cnf_as_set / "
        "PolarityCNFizer.convert_as_formula must return a conjunction of clauses of literals, and for every interpretation I "
        "of the input's symbols (all when <=32, else 8 drawn) the clause set restricted by I must be satisfiable over the "
        "fresh symbols iff I satisfies the input (decided exactly by DPLL over the fresh symbols = all their values).  "
        "(Ackermann) formulas with nested / repeated applications over Bool, BV<=2 and a finite sort: no application may "
        "remain; every model of the input extended with ack_k := value of the application must satisfy the output; for "
        "every assignment of the output's symbols that satisfies it, the function tables read off the constants (or, if "
        "inconsistent, some table among ALL tables) must satisfy the input.  non-trivial = shared sub-formula or IFF/ITE "
        "(CNF); >=2 applications of one function or a nested application (Ackermann); distinct by blueprint hash")

CONN = {"AND", "OR", "NOT", "IMPLIES", "IFF"}


# ---------------------------------------------------------------- CNF

def literal_of(t, tm):
    """-> (atom, positive) or None if t is not a literal."""
    pos = True
    if t[0] == "NOT":
        pos = False
        t = t[2][0]
    if t[0] in CONN or (t[0] == "ITE" and reftype(t, tm) == BOOL):
        return None
    return (t, pos)


def clauses_of(b, tm):
    """Decode 'conjunction of clauses of literals' or return an error string."""
    if b[0] == "CONST":
        return [] if b[1][1] else [[]]          # TRUE: no clause; FALSE: the empty clause
    conj = b[2] if b[0] == "AND" else (b,)
    out = []
    for c in conj:
        lits = c[2] if c[0] == "OR" else (c,)
        cl = []
        for l in lits:
            lit = literal_of(l, tm)
            if lit is not None and lit[0][0] == "CONST":
                lit = None                      # a Boolean constant (negated or not) is not a literal
            if lit is None:
                return "not a literal: %s" % show(l, 120)
            cl.append(lit)
        out.append(cl)
    return out


def dpll(clauses, nvars):
    """clauses: list of lists of (var, positive).  Exact satisfiability over nvars Boolean variables."""
    def solve(cls, assign):
        # unit propagation
        while True:
            unit = None
            new = []
            for c in cls:
                sat = False
                rest = []
                for (v, p) in c:
                    if v in assign:
                        if assign[v] == p:
                            sat = True
                            break
                    else:
                        rest.append((v, p))
                if sat:
                    continue
                if not rest:
                    return False
                if len(rest) == 1 and unit is None:
                    unit = rest[0]
                new.append(rest)
            cls = new
            if unit is None:
                break
            assign = dict(assign)
            assign[unit[0]] = unit[1]
        if not cls:
            return True
        v = cls[0][0][0]
        for val in (True, False):
            a2 = dict(assign)
            a2[v] = val
            if solve(cls, a2):
                return True
        return False
    return solve(clauses, {})


def check_cnf(run, bp, g, cards):
    env = Environment()
    with env:
        try:
            f = pys.build(env, bp)
        except Exception:
            run.discard("rejected-by-constructor")
            return
        b0 = pys.decode(f)
        ops = B.ops_of(b0)
        shared = B.tree_size(b0, 5000) > B.size(b0)
        nontriv = shared or bool(ops & {"IFF", "ITE"})
        run.case(key=b0, nontrivial=nontriv, sample=show(b0, 200) if nontriv and B.size(b0) < 25 else None)
        if shared:
            run.cls("cnf:shared")
        if "IFF" in ops or "ITE" in ops:
            run.cls("cnf:iff-or-ite")
        if any(s[0] == "CONST" and s[1][0] == BOOL for s in subterms(b0)):
            run.cls("cnf:bool-constant")
        in_syms = reffv(b0)
        syms = sorted(in_syms, key=repr)
        interps = exhaustive_interps(syms, cards, cap=32) or [g.interp(syms, cards) for _ in range(8)]
        try:
            truth = [Evaluator(I, cards).eval(b0) for I in interps]
        except (Unconstrained, NoSemantics):
            run.discard("no-semantics")
            return
        converters = {
            "cnf": lambda: rw.cnf(f, env),
            "cnf_as_set": lambda: env.formula_manager.And([env.formula_manager.Or(c) for c in rw.cnf_as_set(f, env)]),
            "polarity": lambda: rw.PolarityCNFizer(env).convert_as_formula(f),
        }
        for name, thunk in converters.items():
            case = {"bp": bp, "cards": cards, "converter": name}
            try:
                out = with_timeout(5, thunk)
            except Timeout:
                run.discard("timeout")
                continue
            except Exception as e:
                run.fail({"subcheck": "cnf:%s-raised" % name, "exc": type(e).__name__}, case,
                         "%s raised %s: %s\n formula=%s" % (name, type(e).__name__, str(e)[:200], show(b0)))
                continue
            ob = pys.decode(out)
            tm = {}
            cls = clauses_of(ob, tm)
            if isinstance(cls, str):
                run.fail({"subcheck": "cnf:%s-shape" % name}, case, "%s\n formula=%s\n result=%s" % (cls, show(b0), show(ob)))
                continue
            fresh = sorted(reffv(ob) - in_syms, key=repr)
            if any(t != BOOL for (_, t) in fresh):
                run.fail({"subcheck": "cnf:%s-fresh-nonbool" % name}, case, "fresh symbols %r" % (fresh,))
                continue
            fidx = {s: i for i, s in enumerate(fresh)}
            run.cls("cnf:ran-" + name)
            if len(fresh) >= 4:
                run.cls("cnf:>=4-definitions")
            for I, want in zip(interps, truth):
                reduced = []
                trivially_false = False
                try:
                    for cl in cls:
                        sat = False
                        rest = []
                        for (atom, pos) in cl:
                            if atom[0] == "SYMBOL" and atom[1] in fidx:
                                rest.append((fidx[atom[1]], pos))
                            else:
                                if any(s in fidx for s in reffv(atom)):
                                    raise IllTyped("fresh symbol inside an atom")
                                if Evaluator(I, cards).eval(atom) == pos:
                                    sat = True
                                    break
                        if not sat:
                            reduced.append(rest)
                except (Unconstrained, NoSemantics):
                    continue
                except IllTyped as e:
                    run.fail({"subcheck": "cnf:%s-shape" % name}, case, str(e))
                    break
                sat = dpll(reduced, len(fresh))
                if sat != want:
                    run.fail({"subcheck": "cnf:%s-%s" % (name, "model-lost" if want else "spurious-model")}, case,
                             "%s: under %r the input is %r but the clause set is %s over the fresh symbols\n formula=%s\n result=%s" % (
                                 name, I, want, "satisfiable" if sat else "unsatisfiable", show(b0), show(ob, 600)))
                    break


# ---------------------------------------------------------------- Ackermann

ASORTS = [BOOL, BV(1), SORT("S1")]
RSORTS = [BOOL, BV(1), BV(2), SORT("S1")]


def gen_ack(rnd):
    cfg = Cfg(max_depth=4, theories={"bool", "bv", "sort", "uf"}, bv_widths=[1, 2], sorts=["S1"], nsyms=2, share=35)
    g = G(cfg=cfg, rnd=rnd)
    # restrict function symbols to tiny finite signatures
    nf = g.rnd.randint(1, 2)
    funs = []
    for k in range(nf):
        ar = g.weighted([(6, 1), (3, 2)])
        ft = FUN(g.choice(RSORTS), tuple(g.choice(ASORTS) for _ in range(ar)))
        funs.append((symname(ft, k), ft))

    def fun_symbol(ret):
        c = [f for f in funs if f[1][1] == ret]
        if c:
            return g.choice(c)
        return None
    orig_compound = g.compound

    def compound(ty, d):
        if g.pct(35):
            fs = fun_symbol(ty)
            if fs is not None:
                return ("FUNCTION", fs, tuple(g.term(p, d - 1) for p in fs[1][2]))
        for _ in range(6):
            t = orig_compound(ty, d)
            if t[0] != "FUNCTION":
                return t
        return g.leaf(ty)
    g.compound = compound
    t = g.term(BOOL)
    cards = {"S1": g.rnd.randint(1, 2)}
    return t, g, cards, funs


def gen_ack_dense(rnd):
    """Several function symbols over ONE sort, applied to each other's results: literals between applications
    f(a), g(a), f(g(a)), g(f(b)), ... (the consistency constraints of every symbol matter at once)."""
    g = G(cfg=Cfg(max_depth=2, theories={"bool", "bv", "sort", "uf"}, bv_widths=[1], sorts=["S1"], nsyms=2), rnd=rnd)
    T = g.choice([BV(1), SORT("S1"), BOOL])
    nf = g.rnd.randint(2, 3)
    funs = [(symname(FUN(T, (T,) * ar), k), FUN(T, (T,) * ar)) for k, ar in enumerate(g.choice([1, 1, 2]) for _ in range(nf))]
    pool = [g.symbol(T), g.symbol(T)]
    level = list(pool)
    for _ in range(2):
        nxt = []
        for f in funs:
            for _ in range(2):
                nxt.append(("FUNCTION", f, tuple(g.choice(level) for _ in f[1][2])))
        level = level + nxt
    lits = []
    for _ in range(g.rnd.randint(2, 4)):
        a_, b_ = g.choice(level), g.choice(level)
        e = ("EQUALS", (), (a_, b_)) if T != BOOL else ("IFF", (), (a_, b_))
        lits.append(e if g.pct(50) else ("NOT", (), (e,)))
    t = ("AND", (), tuple(lits)) if g.pct(70) else ("OR", (), (lits[0], ("AND", (), tuple(lits[1:]))))
    used = {s_[1] for s_ in subterms(t) if s_[0] == "FUNCTION"}
    return t, g, {"S1": g.rnd.randint(1, 2)}, [f for f in funs if f in used]


def all_functions(ft, cards):
    """Every total function of type ft over the finite carriers, as FunV."""
    doms = [all_values(p, cards) for p in ft[2]]
    rng = all_values(ft[1], cards)
    keys = list(itertools.product(*doms))
    for vals in itertools.product(rng, repeat=len(keys)):
        yield FunV([rng[0]], dict(zip(keys, vals)))


def check_ack(run, bp, g, cards, funs):
    env = Environment()
    with env:
        try:
            f = pys.build(env, bp)
        except Exception:
            run.discard("rejected-by-constructor")
            return
        b0 = pys.decode(f)
        apps = [s for s in subterms(b0) if s[0] == "FUNCTION"]
        byfun = {}
        for a in apps:
            byfun.setdefault(a[1], []).append(a)
        nested = any(any(x[0] == "FUNCTION" for c in a[2] for x in subterms(c)) for a in apps)
        nontriv = any(len(v) >= 2 for v in byfun.values()) or nested
        run.case(key=b0, nontrivial=nontriv, sample=show(b0, 200) if nontriv and B.size(b0) < 30 else None)
        if not apps:
            run.cls("ack:no-application")
        if nested:
            run.cls("ack:nested")
        if any(len(v) >= 2 for v in byfun.values()):
            run.cls("ack:repeated")
        case = {"bp": bp, "cards": cards, "funs": funs}
        ack = rw.Ackermannizer(env)
        if g.pct(35):
            # one Ackermannizer object used for two formulas: first a sub-formula (its applications are then
            # already known to the object), then the formula itself
            subs_ = [x for x in B.subterms(b0) if x is not b0 and "FUNCTION" in B.ops_of(x)]
            boolsubs = []
            for x in subs_:
                try:
                    if reftype(x) == BOOL:
                        boolsubs.append(x)
                except IllTyped:
                    pass
            if boolsubs:
                try:
                    with_timeout(5, lambda: ack.do_ackermannization(pys.build(env, g.choice(boolsubs))))
                    run.cls("ack:object-reused")
                except Exception:
                    ack = rw.Ackermannizer(env)
        try:
            out = with_timeout(5, lambda: ack.do_ackermannization(f))
        except Timeout:
            run.discard("timeout")
            return
        except Exception as e:
            run.fail({"subcheck": "ack:raised", "exc": type(e).__name__}, case,
                     "do_ackermannization raised %s: %s\n formula=%s" % (type(e).__name__, e, show(b0)))
            return
        ob = pys.decode(out)
        t2c = {}
        memo = {}
        for term, c in ack.get_term_to_const_dict().items():
            t2c[pys.decode(term, memo)] = pys.decode(c, memo)
    if "FUNCTION" in B.ops_of(ob):
        run.fail({"subcheck": "ack:application-left"}, case,
                 "an uninterpreted-function application remains\n formula=%s\n result=%s" % (show(b0), show(ob, 600)))
        return
    in_syms = reffv(b0)
    fsyms = sorted((s for s in in_syms if is_fun(s[1])), key=repr)
    osyms = sorted((s for s in in_syms if not is_fun(s[1])), key=repr)
    fresh = sorted(reffv(ob) - in_syms, key=repr)
    run.cls("ack:ran")
    # --- forward: models of the input extend to models of the output
    base = exhaustive_interps(osyms, cards, cap=16) or [g.interp(osyms, cards) for _ in range(6)]
    try:
        for I0 in base:
            for _ in range(3):
                I = dict(I0)
                for (n, t) in fsyms:
                    fs = list(itertools.islice(all_functions(t, cards), 0, 4096))
                    I[n] = g.rnd.choice(fs)
                if not Evaluator(I, cards).eval(b0):
                    continue
                J = dict(I)
                for term, c in t2c.items():
                    J[c[1][0]] = Evaluator(I, cards).eval(term)
                missing = [s for s in fresh if s[0] not in J]
                if missing:
                    run.fail({"subcheck": "ack:fresh-symbol-without-term"}, case, "fresh %r not in the term map" % missing)
                    return
                if not Evaluator(J, cards).eval(ob):
                    run.fail({"subcheck": "ack:model-lost"}, case,
                             "a model of the input, extended with ack := value of the application, falsifies the output\n"
                             " formula=%s\n result=%s\n model=%r" % (show(b0), show(ob, 600), {k: v for k, v in J.items()}))
                    return
                run.cls("ack:forward-models")
        # --- backward: models of the output give models of the input for some choice of the functions
        allsyms = osyms + fresh
        outs = exhaustive_interps(allsyms, cards, cap=512) or [g.interp(allsyms, cards) for _ in range(64)]
        # applications ordered inner-first so that argument values can use inner constants
        order = sorted(t2c.keys(), key=B.size)
        nchecked = 0
        for A in outs:
            if not Evaluator(A, cards).eval(ob):
                continue
            nchecked += 1
            if nchecked > 40:
                break
            # read the function tables off the constants
            tables = {s: {} for s in fsyms}
            consistent = True

            def val_with_consts(t):
                # value of a term in which every application is read through its ack constant
                if t in t2c:
                    return A[t2c[t][1][0]]
                if t[0] == "FUNCTION":
                    raise KeyError("application without constant")
                if not any(x[0] == "FUNCTION" for x in subterms(t)):
                    return Evaluator(A, cards).eval(t)
                # rebuild with constants substituted
                return Evaluator(A, cards).eval(subst_consts(t))

            def subst_consts(t):
                if t in t2c:
                    return t2c[t]
                return (t[0], t[1], tuple(subst_consts(c) for c in t[2]))
            for term in order:
                try:
                    args = tuple(val_with_consts(a) for a in term[2])
                    v = A[t2c[term][1][0]]
                except KeyError:
                    # the constant of this application does not occur in the output: unconstrained
                    continue
                tb = tables[term[1]]
                if args in tb and tb[args] != v:
                    consistent = False
                tb[args] = v
            found = False
            if consistent:
                I = {k: A[k] for (k, _) in osyms}
                for s in fsyms:
                    rng = all_values(s[1][1], cards)
                    I[s[0]] = FunV([rng[0]], tables[s])
                found = bool(Evaluator(I, cards).eval(b0))
            if not found:
                # any choice of the eliminated functions at all?
                I = {k: A[k] for (k, _) in osyms}
                spaces = [list(itertools.islice(all_functions(s[1], cards), 0, 300)) for s in fsyms]
                total = 1
                for sp in spaces:
                    total *= len(sp)
                if total > 20000:
                    run.discard("ack:function-space-too-large")
                    continue
                for combo in itertools.product(*spaces):
                    for s, fv in zip(fsyms, combo):
                        I[s[0]] = fv
                    if Evaluator(I, cards).eval(b0):
                        found = True
                        break
                if not found:
                    run.fail({"subcheck": "ack:spurious-model"}, case,
                             "the output is satisfied by %r but no choice of the eliminated functions satisfies the input\n"
                             " formula=%s\n result=%s" % (A, show(b0), show(ob, 600)))
                    return
            run.cls("ack:backward-models")
    except (Unconstrained, NoSemantics):
        run.discard("no-semantics")


CNF_CFG = Cfg(max_depth=5, theories={"bool", "int", "bv", "uf", "arr"}, bv_widths=[1, 2, 4], share=40, same_child=15,
              nsyms=2)
CNF_BOOL = Cfg(max_depth=5, theories={"bool"}, share=40, nsyms=3)


def shard_cnf(shard, seed, n):
    run = Run(PID)
    cfg = CNF_BOOL if shard % 2 else CNF_CFG

    def body(rnd):
        g = G(cfg=cfg, rnd=rnd)
        t = g.term(BOOL)
        if B.size(t) > 45:
            run.discard("too-large")
            return
        if rnd.random() < 0.12:
            # the input already uses the names of the next definition variables (FV0, FV1, ...)
            from vf import names
            bs = sorted(n for (n, ty_) in reffv(t) if ty_ == BOOL)
            t = names.rename(t, {n: "FV%d" % i for i, n in enumerate(bs)})
            run.cls("cnf:input-uses-fresh-looking-names")
        check_cnf(run, t, g, g.cards())
    drive(body, st.randoms(use_true_random=True), n, derive_seed(seed, "c11cnf", shard))
    return run


def shard_enum(shard, nshards, d3stride, offset):
    """Bounded-exhaustive: both CNF conversions on every quantifier-free formula with <= 2 connectives (+ a slice of 3)."""
    import random
    from vf import enumterms
    run = Run(PID)
    g = G(cfg=CNF_BOOL, rnd=random.Random(offset))
    idx = 0
    for t in enumterms.bool_quant_terms(d3stride):
        if B.ops_of(t) & {"FORALL", "EXISTS"}:
            continue
        idx += 1
        if idx % nshards != shard:
            continue
        check_cnf(run, t, g, {})
        run.cls("cnf:enumerated-connective-combination")
    return run


def shard_ack(shard, seed, n):
    run = Run(PID)

    def body(rnd):
        t, g, cards, funs = gen_ack(rnd) if rnd.random() < 0.65 else gen_ack_dense(rnd)
        if len(funs) >= 2:
            run.cls("ack:several-function-symbols")
        if rnd.random() < 0.12:
            # the input already uses the names the procedure would hand out next (ack0, ack1, ...)
            from vf import names
            cs = sorted(n for (n, ty_) in reffv(t) if not is_fun(ty_))
            t = names.rename(t, {n: "ack%d" % i for i, n in enumerate(cs)})
            run.cls("ack:input-uses-fresh-looking-names")
        check_ack(run, t, g, cards, funs)
    drive(body, st.randoms(use_true_random=True), n, derive_seed(seed, "c11ack", shard))
    return run


def main():
    chk = Check(PID, "exploration", RULE, assumptions=[
        "reference evaluator vf/refsem.py; theory atoms keep their real interpretation",
        "satisfiability over the fresh CNF symbols is decided exactly (DPLL = all 2^k assignments)",
        "Ackermann inputs use function symbols over carriers of size <= 4 so that all function tables can be enumerated"])
    thorough = chk.tier == "thorough"
    jobs = [(shard_cnf, dict(shard=s, seed=chk.seed, n=20000 if thorough else 1200)) for s in range(8)]
    jobs += [(shard_ack, dict(shard=s, seed=chk.seed, n=20000 if thorough else 1200)) for s in range(8)]
    jobs += [(shard_enum, dict(shard=s, nshards=16, d3stride=4 if thorough else 40, offset=chk.seed)) for s in range(16)]
    chk.add(run_shards(jobs))
    chk.exhaustive.append("every quantifier-free Boolean formula with at most two connectives over p, q, (i < j), True")
    chk.exhaustive.append("all values of the introduced CNF symbols (exact DPLL) for every explored interpretation")
    chk.exhaustive.append("all function tables when the constants are inconsistent (Ackermann backward direction)")
    for c in ("cnf:shared", "cnf:iff-or-ite", "cnf:bool-constant", "cnf:>=4-definitions", "ack:nested", "ack:repeated",
              "ack:forward-models", "ack:backward-models"):
        chk.floor(c, 300)
    return chk.finish()


def replay(rec):
    import random
    run = Run(PID, known=[])
    c = rec["case"]
    g = G(cfg=CNF_CFG, rnd=random.Random(0))
    if "funs" in c:
        check_ack(run, c["bp"], g, c["cards"], c["funs"])
    else:
        check_cnf(run, c["bp"], g, c["cards"])
    if run.violations:
        print("VIOLATION property=%s replay=(replayed)" % PID)
        print(run.violations[0]["detail"])
        return 1
    print("replay: no violation")
    return 0
