"""C10 - normal-form rewriters and Boolean quantifier elimination preserve equivalence (and shape)."""
import warnings

from hypothesis import strategies as st

from pysmt.environment import Environment
import pysmt.rewritings as rw
from pysmt.solvers.qelim import ShannonQuantifierEliminator, SelfSubstitutionQuantifierEliminator

from vf import bp as B
from vf.bp import BOOL, INT, REAL, STRING, BV, SORT, is_bv, is_arr, is_fun, show, subterms, app, sym, const
from vf.refsem import (Evaluator, reftype, reffv, IllTyped, Unconstrained, NoSemantics, val_eq)
from vf.gen import G, Cfg, exhaustive_interps
from vf.harness import Run, Check, run_shards, drive, derive_seed
from vf.common import compare_values, with_timeout, Timeout
from vf import pys

warnings.filterwarnings("ignore")

PID = "C10"
RULE = ("Boolean structure (And/Or/Not/Implies/Iff/Boolean ITE in both polarities) over theory atoms with nested / "
        "shadowing quantifiers over Bool, BV<=2 and finite sorts; arithmetic terms with nested sums and products; "
        "conjunctions with top-level (symbol|constant) equalities.  Each of nnf / prenex_normal_form / aig / "
        "TimesDistributor / And(conjunctive_partition) / Or(disjunctive_partition) / propagate_toplevel (both simplify "
        "modes) / qelim shannon / qelim selfsub must return a formula with the same value under all (<=128) or 12 sampled "
        "interpretations and the advertised shape.  non-trivial = negation above a connective or Boolean ITE/IFF, "
        "quantifier below a connective, name clash forcing a renaming, or a top-level equality; distinct by blueprint hash")

CONN = {"AND", "OR", "NOT", "IMPLIES", "IFF"}
QUANT = {"FORALL", "EXISTS"}


def is_bool_ite(t, tm):
    return t[0] == "ITE" and reftype(t, tm) == BOOL


def bool_positions(b):
    """Sub-terms reached through connectives, quantifiers and Boolean ITE only."""
    tm = {}
    out, seen = [], set()

    def go(t):
        if id(t) in seen:
            return
        seen.add(id(t))
        out.append(t)
        if t[0] in CONN or t[0] in QUANT or is_bool_ite(t, tm):
            for c in t[2]:
                go(c)
    go(b)
    return out, tm


def shape_nnf(b):
    pos, tm = bool_positions(b)
    for t in pos:
        if t[0] == "NOT":
            c = t[2][0]
            if c[0] in CONN or c[0] in QUANT or is_bool_ite(c, tm):
                return "negation above %s" % c[0]
    return None


def shape_aig(b):
    pos, tm = bool_positions(b)
    for t in pos:
        if t[0] in ("OR", "IMPLIES", "IFF") or is_bool_ite(t, tm):
            return "%s left" % t[0]
    return None


def shape_prenex(b):
    t = b
    while t[0] in QUANT:
        t = t[2][0]
    if B.ops_of(t) & QUANT:
        return "quantifier below the prefix"
    return None


def quantifiers_in_bool_positions_only(b):
    """No quantifier occurrence lies below a theory atom (path-sensitive: a shared node may be
    reachable both through Boolean structure and through a theory term)."""
    tm = {}
    seen = set()
    stack = [(b, False)]
    while stack:
        t, inside_atom = stack.pop()
        if (id(t), inside_atom) in seen:
            continue
        seen.add((id(t), inside_atom))
        if t[0] in QUANT and inside_atom:
            return False
        structural = t[0] in CONN or t[0] in QUANT or is_bool_ite(t, tm)
        for c in t[2]:
            stack.append((c, inside_atom or not structural))
    return True


def transformations(env, f, b0):
    mgr = env.formula_manager
    T = {
        "nnf": (lambda: rw.nnf(f, env), shape_nnf),
        "aig": (lambda: rw.aig(f, env), shape_aig),
        "prenex": (lambda: rw.prenex_normal_form(f, env),
                   shape_prenex if quantifiers_in_bool_positions_only(b0) else None),
        "times_distributor": (lambda: rw.TimesDistributor(env).walk(f), None),
        "conjunctive_partition": (lambda: mgr.And(list(rw.conjunctive_partition(f))), None),
        "disjunctive_partition": (lambda: mgr.Or(list(rw.disjunctive_partition(f))), None),
        "propagate_toplevel": (lambda: rw.propagate_toplevel(f, env), None),
        "propagate_toplevel-nosimplify": (lambda: rw.propagate_toplevel(f, env, do_simplify=False), None),
        "qelim-shannon": (lambda: ShannonQuantifierEliminator(env).eliminate_quantifiers(f),
                          lambda b: "quantifier left" if B.ops_of(b) & QUANT else None),
        "qelim-selfsub": (lambda: SelfSubstitutionQuantifierEliminator(env).eliminate_quantifiers(f),
                          lambda b: "quantifier left" if B.ops_of(b) & QUANT else None),
    }
    return T


def in_fragment(name, b0, ty):
    """Input fragment of each procedure."""
    ops = B.ops_of(b0)
    if name == "times_distributor":
        # distributing products over sums is legitimately exponential in the nesting of sums
        return B.tree_size(b0, 200) <= 60
    if ty != BOOL:
        return False
    if name.startswith("qelim"):
        # Boolean QE: every bound variable is Boolean
        return all(t == BOOL for s in subterms(b0) if s[0] in QUANT for (_, t) in s[1])
    return True


def check_formula(run, bp, g, cards, only=None):
    env = Environment()
    with env:
        try:
            f = pys.build(env, bp)
        except Exception:
            run.discard("rejected-by-constructor")
            return
        b0 = pys.decode(f)
        try:
            ty = reftype(b0)
        except IllTyped:
            run.discard("illtyped")
            return
        syms = sorted(reffv(b0), key=repr)
        interps = exhaustive_interps(syms, cards, cap=128)
        if interps is None:
            interps = [g.interp(syms, cards) for _ in range(12)]
        pos, tm = bool_positions(b0)
        nontriv = False
        if ty == BOOL:
            if any(t[0] == "NOT" and (t[2][0][0] in CONN or t[2][0][0] in QUANT or is_bool_ite(t[2][0], tm)) for t in pos):
                run.cls("negation-above-connective")
                nontriv = True
            if any(t[0] == "NOT" and (t[2][0][0] == "IFF" or is_bool_ite(t[2][0], tm)) for t in pos):
                run.cls("negated-ite-or-iff")
            if any(t[0] in QUANT for t in pos[1:]):
                run.cls("quantifier-below-connective")
                nontriv = True
            bound = [v for s in subterms(b0) if s[0] in QUANT for v in s[1]]
            if len(bound) != len(set(bound)) or set(bound) & reffv(b0):
                run.cls("binder-name-clash")
                nontriv = True
            if any(t[0] == "EQUALS" for t in pos if True) and b0[0] in ("AND", "EQUALS"):
                run.cls("toplevel-equality")
                nontriv = True
        run.case(key=b0, nontrivial=nontriv, sample=show(b0, 200) if nontriv else None)
        for name, (thunk, shape) in transformations(env, f, b0).items():
            if only and name != only:
                continue
            if not in_fragment(name, b0, ty):
                continue
            case = {"bp": bp, "cards": cards, "transformation": name}
            try:
                r = with_timeout(5, thunk)
            except Timeout:
                run.discard("timeout:" + name)      # inconclusive, never a violation
                continue
            except Exception as e:
                run.fail({"subcheck": "rewrite:%s-raised" % name, "exc": type(e).__name__}, case,
                         "%s raised %s: %s\n formula=%s" % (name, type(e).__name__, str(e)[:200], show(b0)))
                continue
            run.cls("ran:" + name)
            rb = pys.decode(r)
            if r is not f:
                run.cls("changed:" + name)
            extra = reffv(rb) - reffv(b0)
            if extra:
                run.fail({"subcheck": "rewrite:%s-new-free-symbol" % name}, case,
                         "%s introduces free symbols %r\n formula=%s\n result=%s" % (name, sorted(extra), show(b0), show(rb)))
                continue
            try:
                ncmp, nunc, mm = compare_values(b0, rb, interps, cards)
            except NoSemantics:
                run.discard("no-semantics")
                mm = None
            if mm is not None and mm[0] == "value":
                run.fail({"subcheck": "rewrite:%s-value" % name}, case,
                         "%s changes the value under %r: %r -> %r\n formula=%s\n result=%s" % (
                             name, mm[1], mm[2], mm[3], show(b0), show(rb)))
                continue
            if shape is not None:
                try:
                    bad = shape(rb)
                except IllTyped as e:
                    bad = "ill-typed result: %s" % e
                if bad:
                    run.fail({"subcheck": "rewrite:%s-shape" % name}, case,
                             "%s: %s\n formula=%s\n result=%s" % (name, bad, show(b0), show(rb)))


BCFG = Cfg(max_depth=5, theories={"bool", "int", "real", "bv", "str", "arr", "uf", "sort", "quant"},
           bv_widths=[1, 2, 4], quant_types=[BOOL, BOOL, BV(1), BV(2), SORT("S1")], share=30, nsyms=2, pow=True)
QCFG = Cfg(max_depth=5, theories={"bool", "int", "quant", "uf"}, quant_types=[BOOL], share=30, nsyms=3)
ACFG = Cfg(max_depth=4, theories={"bool", "int", "real"}, div=False, share=25, pow=True)


def gen_case(rnd, kind):
    if kind == "bool":
        g = G(cfg=BCFG, rnd=rnd)
        t = g.term(BOOL)
    elif kind == "qbf":
        g = G(cfg=QCFG, rnd=rnd)
        t = g.term(BOOL)
        if g.pct(60):
            vs = tuple((("p%d" % i), BOOL) for i in g.rnd.sample(range(3), g.rnd.randint(1, 3)))
            t = (g.choice(["FORALL", "EXISTS"]), vs, (t,))
    elif kind == "arith":
        g = G(cfg=ACFG, rnd=rnd)
        t = g.term(g.choice([INT, REAL, BOOL]))
    else:   # toplevel equalities
        g = G(cfg=Cfg(max_depth=3, theories={"bool", "int", "real", "bv", "str", "quant"}, bv_widths=[2, 4], nsyms=3,
                      quant_types=[BOOL, BV(2)]), rnd=rnd)
        conj = []
        for _ in range(g.rnd.randint(1, 4)):
            # (BV2 equalities next to quantifiers over BV2 variables of the same names: propagation must not capture)
            ty = g.choice([INT, REAL, BV(2), STRING, INT, BV(2), BV(2)])
            a = g.symbol(ty) if g.pct(70) else g.constant(ty)
            b = g.symbol(ty) if g.pct(50) else g.constant(ty)
            conj.append(app("EQUALS", a, b))
        for _ in range(g.rnd.randint(0, 2)):
            conj.append(g.term(BOOL, 3))
        eqs = [c for c in conj if c[0] == "EQUALS" and c[2][0][0] == "SYMBOL" and c[2][1][0] == "SYMBOL"
               and c[2][0][1][1] == BV(2)]
        if eqs and g.pct(60):
            # a quantifier binding one side of a top-level equality, with the other side free in its body
            e = g.choice(eqs)
            a_, b_ = e[2] if g.pct(50) else (e[2][1], e[2][0])
            rel = g.choice([("BV_ULT", (), (a_, b_)), ("NOT", (), (("EQUALS", (), (a_, b_)),)),
                            ("EQUALS", (), (("BV_ADD", (), (a_, ("CONST", (BV(2), 1), ()))), b_))])
            q_ = (g.choice(["FORALL", "EXISTS"]), (a_[1],), (rel,))
            # ... as a conjunct, or below other operators (a Boolean ITE, an implication, an equivalence, a negation)
            p_, r_ = g.term(BOOL, 1), g.term(BOOL, 1)
            conj.append(g.choice([q_, q_, ("ITE", (), (p_, q_, r_)), ("ITE", (), (p_, r_, q_)), ("OR", (), (q_, p_)),
                                  ("IMPLIES", (), (p_, q_)), ("IFF", (), (q_, p_)), ("NOT", (), (("AND", (), (p_, q_)),))]))
        if g.pct(30):
            # a constant that is in an equality class with symbols and also occurs where only a constant may stand
            # (the exponent of a power): the constant is what gets propagated, never replaced by a symbol
            c_ = ("CONST", (REAL, g.choice([2, 3])), ())
            s1, s2 = g.symbol(REAL), g.symbol(REAL)
            conj += [app("EQUALS", s1, c_) if g.pct(50) else app("EQUALS", c_, s1), app("EQUALS", s2, s1),
                     app("LT", ("CONST", (REAL, 3), ()), ("POW", (), (g.symbol(REAL), c_)))]
        if g.pct(35):
            # the bare trap: one class of two symbols, its representative (the smaller name) bound somewhere below
            ty = g.choice([BV(2), BV(2), BOOL])
            lo, hi = sym("b2_0" if ty != BOOL else "p0", ty), sym("b2_1" if ty != BOOL else "p1", ty)
            rel = g.choice([("BV_ULT", (), (lo, hi)), ("BV_ULT", (), (hi, lo)), ("NOT", (), (("EQUALS", (), (lo, hi)),)),
                            ("EQUALS", (), (("BV_ADD", (), (lo, ("CONST", (BV(2), 1), ()))), hi))]) if ty != BOOL else \
                g.choice([("AND", (), (lo, ("NOT", (), (hi,)))), ("IFF", (), (lo, ("NOT", (), (hi,)))), ("OR", (), (("NOT", (), (lo,)), hi))])
            q_ = (g.choice(["FORALL", "EXISTS"]), (lo[1],), (rel,))
            p_, r_ = sym("p2", BOOL), g.term(BOOL, 1)
            wrapped = g.choice([q_, ("ITE", (), (p_, q_, r_)), ("ITE", (), (p_, r_, q_)), ("ITE", (), (q_, p_, r_)),
                                ("OR", (), (q_, p_)), ("IMPLIES", (), (p_, q_)), ("IFF", (), (q_, p_)),
                                ("NOT", (), (("AND", (), (p_, q_)),)),
                                ("EQUALS", (), (("ITE", (), (q_, ("CONST", (INT, 1), ()), ("CONST", (INT, 2), ()))), sym("i0", INT)))])
            eq_ = ("EQUALS", (), (hi, lo)) if ty != BOOL else ("IFF", (), (hi, lo))
            conj = [eq_ if g.pct(50) else (eq_[0], (), (lo, hi)), wrapped] + ([g.term(BOOL, 2)] if g.pct(30) else [])
        g.rnd.shuffle(conj)
        t = app("AND", *conj) if len(conj) > 1 else conj[0]
    if rnd.random() < 0.1:
        # the input already uses the names the rewriters would hand out next (FV0, FV1, ...)
        from vf import names
        from vf.refsem import reffv
        cs = sorted(n for (n, ty_) in reffv(t) if not is_fun(ty_))
        t = names.rename(t, {n: "FV%d" % i for i, n in enumerate(cs)})
    return t, g, g.cards()


def shard(shard, seed, n, kind):
    run = Run(PID)

    def body(rnd):
        t, g, cards = gen_case(rnd, kind)
        check_formula(run, t, g, cards)
    drive(body, st.randoms(use_true_random=True), n, derive_seed(seed, "c10", kind, shard))
    return run


def shard_enum(shard, nshards, d3stride, offset):
    """Bounded-exhaustive: every formula with <= 2 connectives / quantifiers (and a slice of those with 3)."""
    import random
    from vf import enumterms
    run = Run(PID)
    g = G(cfg=QCFG, rnd=random.Random(offset))
    for idx, t in enumerate(enumterms.bool_quant_terms(d3stride)):
        if idx % nshards != shard:
            continue
        check_formula(run, t, g, {})
        run.cls("enumerated-connective-combination")
    return run


def main():
    chk = Check(PID, "exploration", RULE, assumptions=[
        "reference evaluator vf/refsem.py; quantifiers evaluated exactly over Bool, BV<=2 and finite sorts only",
        "shape predicates in vf/checks/c10.py (NNF: Not only above non-connectives; prenex: prefix over a quantifier-free "
        "matrix when all quantifiers occur in Boolean positions; AIG: no Or/Implies/Iff/Boolean ITE; QE: no quantifier)",
        "Boolean QE procedures are only given formulas whose bound variables are all Boolean"])
    thorough = chk.tier == "thorough"
    per = 20000 if thorough else 1200
    jobs = []
    for kind, k in (("bool", 7), ("qbf", 4), ("arith", 2), ("toplevel", 3)):
        for s in range(k):
            jobs.append((shard, dict(shard=s, seed=chk.seed, n=per, kind=kind)))
    for s in range(16):
        jobs.append((shard_enum, dict(shard=s, nshards=16, d3stride=4 if thorough else 60, offset=chk.seed)))
    chk.add(run_shards(jobs))
    chk.exhaustive.append("every Boolean formula with at most two connectives / Boolean quantifiers over p, q, (i < j), True "
                          "(one complex argument per level, every position)")
    for c in ("negation-above-connective", "negated-ite-or-iff", "quantifier-below-connective", "binder-name-clash",
              "toplevel-equality", "ran:qelim-shannon", "ran:qelim-selfsub", "changed:times_distributor",
              "changed:propagate_toplevel", "changed:prenex"):
        chk.floor(c, 300)
    return chk.finish()


def replay(rec):
    import random
    run = Run(PID, known=[])
    c = rec["case"]
    check_formula(run, c["bp"], G(cfg=BCFG, rnd=random.Random(0)), c["cards"], only=c.get("transformation"))
    if run.violations:
        print("VIOLATION property=%s replay=(replayed)" % PID)
        print(run.violations[0]["detail"])
        return 1
    print("replay: no violation")
    return 0
