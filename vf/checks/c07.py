"""C07 - SMT-LIB export is well-formed and denotes the same thing as the formula."""
import warnings
from io import StringIO
from fractions import Fraction

from hypothesis import strategies as st

from pysmt.environment import Environment
import pysmt.smtlib.printers as pr
from pysmt.smtlib.script import smtlibscript_from_formula

from vf import bp as B
from vf.bp import BOOL, INT, REAL, STRING, BV, SORT, is_bv, is_arr, is_fun, is_sort, show, subterms
from vf.refsem import (Evaluator, reftype, reffv, all_symbols, IllTyped, Unconstrained, NoSemantics, canon,
                       sorts_of_type)
from vf.gen import G, Cfg, exhaustive_interps
from vf.harness import Run, Check, run_shards, drive, derive_seed
from vf import pys, smtref, names

warnings.filterwarnings("ignore")

PID = "C07"
RULE = ("blueprints of every theory with hostile symbol names (spaces, quotes, parentheses, ';', '#', non-ASCII, let-like "
        "and fresh-like names), negative / rational / huge constants, strings with quotes, nested array values, finite and "
        "Int/Real binders, UF, uninterpreted sorts, printed by to_smtlib(daggify=True/False), SmtPrinter / SmtDagPrinter and "
        "smtlibscript_from_formula(...).serialize (both printers); the text is read by the independent strict SMT-LIB 2.6 "
        "reader (vf/smtref.py, no pysmt import): it must be lexically / syntactically well-formed, every sort and symbol "
        "declared before use and once, well-sorted, and the elaborated term must have the reference value of the original "
        "under all (<=64) or 8 sampled interpretations.  non-trivial = >=3 operators and a declaration, a name that needs "
        "quoting, or a DAG print that re-uses a let; distinct by text hash")

WINDOW = {INT: [-2, 0, 1, 3], REAL: [Fraction(-1), Fraction(0), Fraction(1, 2), Fraction(2)]}


def script_decls_ok(sc, b0):
    """Every free symbol / sort of the formula is declared by the script (declared-before-use is enforced by
    the reader itself; here: nothing is missing and types agree)."""
    decl = {c[1]: c[2] for c in sc.commands if c[0] == "declare-fun"}
    for (n, t) in reffv(b0):
        if decl.get(n) != t:
            return "symbol %r declared as %r, formula uses %r" % (n, decl.get(n), t)
    return None


def judge_text(run, text, b0, interps, cards, how, case, as_script):
    """Read `text` with the independent reader and compare with b0."""
    legacy = False
    try:
        try:
            if as_script:
                sc = smtref.read_script(text, strict=True)
            else:
                decls = {n: t for (n, t) in reffv(b0)}
                xs = set()
                for s_ in subterms(b0):
                    try:
                        sorts_of_type(reftype(s_), xs)
                    except IllTyped:
                        pass
                    if s_[0] in ("FORALL", "EXISTS"):
                        for (_, t_) in s_[1]:
                            sorts_of_type(t_, xs)
                    elif s_[0] == "ARRAY_VALUE":
                        sorts_of_type(s_[1][0], xs)
                tb = smtref.read_term(text, decls, strict=True, extra_sorts=xs)
        except smtref.IllFormed as e:
            if e.cls != "legacy-name":
                raise
            legacy = True
            if as_script:
                sc = smtref.read_script(text, strict=False)
            else:
                tb = smtref.read_term(text, decls, strict=False, extra_sorts=xs)
    except smtref.IllFormed as e:
        if e.cls == "undeclared" and "'pow'" in str(e) and "POW" in B.ops_of(b0):
            # its own class: the power operator is printed with a name SMT-LIB does not have
            run.fail({"subcheck": "smtlib:illformed", "class": "pow-is-not-an-smtlib-symbol"}, case,
                     "%s writes a power as (pow ...), which no SMT-LIB theory declares: %s\n formula=%s\n text=%s" % (
                         how, e, show(b0), text[:300]))
            return
        run.fail({"subcheck": "smtlib:illformed", "class": e.cls, "printer": how.split("/")[0]}, case,
                 "%s output is not well-formed SMT-LIB: %s\n formula=%s\n text=%s" % (how, e, show(b0), text[:700]))
        return
    if legacy:
        ops = B.ops_of(b0) & {"STR_TO_INT", "INT_TO_STR"}
        run.fail({"subcheck": "smtlib:illformed", "class": "legacy-name", "op": sorted(ops)[0] if ops else "?"}, case,
                 "%s uses the pre-standard name for %s (str.to.int / int.to.str are not SMT-LIB 2.6 symbols)\n text=%s" % (
                     how, sorted(ops), text[:300]))
    if as_script:
        asserts = sc.assertions()
        if len(asserts) != 1:
            run.fail({"subcheck": "smtlib:script-shape"}, case, "%d assertions in the script" % len(asserts))
            return
        tb = asserts[0]
        bad = script_decls_ok(sc, b0)
        if bad:
            run.fail({"subcheck": "smtlib:declarations"}, case, "%s\n text=%s" % (bad, text[:500]))
            return
    try:
        t0, t1 = reftype(b0), reftype(tb)
    except IllTyped as e:
        run.fail({"subcheck": "smtlib:illformed", "class": "ill-sorted"}, case, str(e))
        return
    if t0 != t1:
        run.fail({"subcheck": "smtlib:sort"}, case, "%s: text has sort %r, formula %r\n text=%s" % (how, t1, t0, text[:500]))
        return
    # the text mentions exactly the formula's free symbols (a name written differently is another symbol)
    extra_syms = reffv(tb) - reffv(b0)
    if extra_syms:
        run.fail({"subcheck": "smtlib:symbols", "printer": how.split("/")[0]}, case,
                 "%s: the text mentions %s, which the formula does not\n formula=%s\n text=%s" % (
                     how, sorted(map(repr, extra_syms))[:3], show(b0), text[:500]))
        return
    unbounded = any(t in (INT, REAL) for s in subterms(b0) if s[0] in ("FORALL", "EXISTS") for (_, t) in s[1])
    win = WINDOW if unbounded else None
    try:
        for I in interps:
            v0 = Evaluator(I, cards, window=win).eval(b0)
            v1 = Evaluator(I, cards, window=win).eval(tb)
            if canon(v0, t0, cards) != canon(v1, t0, cards):
                ops = B.ops_of(b0)
                run.fail({"subcheck": "smtlib:value", "printer": how.split("/")[0],
                          "class": "int-div" if _has_int_div(b0) else "other"}, case,
                         "%s: the text denotes %r, the formula %r under %r\n formula=%s\n text=%s" % (
                             how, v1, v0, I, show(b0), text[:700]))
                return
        run.cls("evaluated" + ("-windowed" if unbounded else ""))
    except (Unconstrained, NoSemantics):
        run.discard("no-semantics")


def _has_int_div(b):
    tm = {}
    for s in subterms(b):
        if s[0] == "DIV":
            try:
                if reftype(s, tm) == INT:
                    return True
            except IllTyped:
                pass
    return False


def check_formula(run, bp, g, cards):
    env = Environment()
    with env:
        try:
            f = pys.build(env, bp)
        except Exception:
            run.discard("rejected-by-constructor")
            return
        b0 = pys.decode(f)
        try:
            ty = reftype(b0)
        except IllTyped:
            run.discard("illtyped")
            return
        texts = {}
        case = {"bp": bp, "cards": cards}

        def grab(how, thunk):
            try:
                texts[how] = thunk()
            except Exception as e:
                if type(e).__name__ == "NoLogicAvailableError":
                    run.discard("no-logic-available")     # no text is produced: nothing to judge
                    return
                run.fail({"subcheck": "smtlib:printer-raised", "printer": how.split("/")[0], "exc": type(e).__name__}, case,
                         "%s raised %s: %s\n formula=%s" % (how, type(e).__name__, str(e)[:300], show(b0)))

        grab("to_smtlib/dag", lambda: pr.to_smtlib(f, daggify=True))
        grab("to_smtlib/tree", lambda: pr.to_smtlib(f, daggify=False))

        def with_printer(cls):
            buf = StringIO()
            cls(buf).printer(f)
            return buf.getvalue()
        if g.pct(30):
            grab("SmtPrinter/tree", lambda: with_printer(pr.SmtPrinter))
            grab("SmtDagPrinter/dag", lambda: with_printer(pr.SmtDagPrinter))
        if ty == BOOL:
            for dag in (True, False):
                def script(dag=dag):
                    buf = StringIO()
                    try:
                        sc_ = smtlibscript_from_formula(f)
                    except Exception as e_:
                        if type(e_).__name__ != "NoLogicAvailableError":
                            raise
                        # pySMT has no logic for the formula: the caller names one
                        sc_ = smtlibscript_from_formula(f, logic="ALL")
                        run.cls("script-with-explicit-logic")
                    sc_.serialize(buf, daggify=dag)
                    return buf.getvalue()
                grab("script/%s" % ("dag" if dag else "tree"), script)
    syms = sorted(reffv(b0), key=repr)
    interps = exhaustive_interps(syms, cards, cap=64) or [g.interp(syms, cards) for _ in range(8)]
    needs_quote = any(not all(c in smtref.SIMPLE for c in n) or n[0].isdigit() for (n, _) in all_symbols(b0))
    for how, text in texts.items():
        nontriv = (B.size(b0) >= 4 and bool(syms)) or needs_quote or (how.endswith("dag") and text.count("(let") >= 2)
        run.case(key=text, nontrivial=nontriv,
                 sample={"printer": how, "text": text[:240]} if needs_quote and len(text) < 240 else None)
        run.cls("printer:" + how)
        if needs_quote:
            run.cls("name-needs-quoting")
        c2 = dict(case)
        c2["how"] = how
        judge_text(run, text, b0, interps, cards, how, c2, as_script=how.startswith("script"))
    for o in B.ops_of(b0):
        run.cls("op:" + o)


PSORTS = ["S1", "S2", "L{S1}", "L{S2}", "P{S2, Int}", "P{S1, Bool}", "my sort", "my list{S1}", "my list{my sort}"]
CFGS = [Cfg(max_depth=4, quant_unbounded=True, sorts=PSORTS, quant_types=[BOOL, BV(1), BV(2), SORT("S1"), SORT("L{S1}")]),
        # arrays indexed by uninterpreted sorts (their constant arrays have no assigned index: the index sort may occur
        # nowhere else)
        Cfg(max_depth=3, theories={"bool", "int", "arr", "sort"}, sorts=["S1", "S2"], array_idx=[SORT("S1"), SORT("S2"), INT]),
        Cfg(max_depth=3, theories={"bool", "int", "real", "str", "arr", "uf", "sort", "quant"}, quant_unbounded=True,
            sorts=PSORTS),
        Cfg(max_depth=4, theories={"bool", "bv", "arr", "uf", "quant"}, bv_widths=[1, 2, 4, 8, 33]),
        Cfg(max_depth=2, share=10),
        Cfg(max_depth=3, theories={"bool", "int", "real"}, pow=True)]


def gen_case(rnd, k):
    g = G(cfg=CFGS[k % len(CFGS)], rnd=rnd)
    t = g.term(BOOL if g.pct(65) else g.ty())
    extra = [g.term(BOOL, 3) for _ in range(g.weighted([(5, 0), (3, 1), (2, 2)]))]
    ns = set()
    for x in [t] + extra:
        ns |= {n for (n, _) in all_symbols(x)}
    FNS = {n for x in [t] + extra for (n, ty_) in all_symbols(x) if is_fun(ty_)}
    m = names.hostile_mapping(rnd, ns, pct=55, functions=FNS, with_pow=any("POW" in B.ops_of(x) for x in [t] + extra))
    return names.rename(t, m), g, g.cards(), [names.rename(x, m) for x in extra]


def check_multi_script(run, bps, g, cards):
    """One script with several assert commands printed by ONE printer instance (SmtLibScript.serialize)."""
    from pysmt.smtlib.script import SmtLibScript, SmtLibCommand
    import pysmt.smtlib.commands as smtcmd
    env = Environment()
    with env:
        try:
            fs = [pys.build(env, b) for b in bps]
            fs = [f for f in fs if f.get_type().is_bool_type()]
            if len(fs) < 2:
                return
            base = smtlibscript_from_formula(env.formula_manager.And(fs))
        except Exception:
            run.discard("multi:rejected")
            return
        bs = [pys.decode(f) for f in fs]
        sc = SmtLibScript()
        for c in base.commands:
            if c.name not in (smtcmd.ASSERT, smtcmd.CHECK_SAT):
                if c.name == smtcmd.DECLARE_FUN and not c.args[0].symbol_type().is_function_type() and g.pct(40):
                    # the other declaration command for constants
                    c = SmtLibCommand(smtcmd.DECLARE_CONST, [c.args[0]])
                    run.cls("command:declare-const")
                sc.add_command(c)
        if g.pct(50):
            # a definition whose formal parameters carry the (hostile) names of the formula's symbols
            ps = sorted((s_ for s_ in fs[0].get_free_variables() if not s_.symbol_type().is_function_type()),
                        key=lambda s_: s_.symbol_name())[:2]
            sc.add_command(SmtLibCommand(smtcmd.DEFINE_FUN, [g.choice(["dfn", "my def", "d!f"]), ps, fs[0].get_type(), fs[0]]))
            run.cls("command:define-fun")
        for f in fs:
            sc.add_command(SmtLibCommand(smtcmd.ASSERT, [f]))
        sc.add_command(SmtLibCommand(smtcmd.CHECK_SAT, []))
        texts = {}
        for dag in (True, False):
            buf = StringIO()
            try:
                sc.serialize(buf, daggify=dag)
            except Exception as e:
                run.fail({"subcheck": "smtlib:printer-raised", "printer": "multi-script", "exc": type(e).__name__},
                         {"bps": bps, "cards": cards}, "serialize raised %s: %s" % (type(e).__name__, e))
                continue
            texts["multi-script/%s" % ("dag" if dag else "tree")] = buf.getvalue()
    syms = set()
    for b in bs:
        syms |= reffv(b)
    syms = sorted(syms, key=repr)
    interps = exhaustive_interps(syms, cards, cap=32) or [g.interp(syms, cards) for _ in range(6)]
    for how, text in texts.items():
        case = {"bps": bps, "cards": cards, "how": how}
        run.case(key=text, nontrivial=True)
        run.cls("printer:" + how)
        try:
            rs = smtref.read_script(text, strict=True)
        except smtref.IllFormed as e:
            if e.cls == "undeclared" and "'pow'" in str(e) and any("POW" in B.ops_of(b) for b in bs):
                run.fail({"subcheck": "smtlib:illformed", "class": "pow-is-not-an-smtlib-symbol"}, case,
                         "%s writes a power as (pow ...), which no SMT-LIB theory declares\n text=%s" % (how, text[:300]))
                continue
            run.fail({"subcheck": "smtlib:illformed", "class": e.cls, "printer": "multi-script"}, case,
                     "%s is not well-formed SMT-LIB: %s\n text=%s" % (how, e, text[:900]))
            continue
        got = rs.assertions()
        if len(got) != len(bs):
            run.fail({"subcheck": "smtlib:script-shape"}, case, "%d assertions read, %d written" % (len(got), len(bs)))
            continue
        strange = [(i, sorted(map(repr, reffv(t) - reffv(b)))[:3]) for i, (b, t) in enumerate(zip(bs, got)) if reffv(t) - reffv(b)]
        if strange:
            run.fail({"subcheck": "smtlib:symbols", "printer": "multi-script"}, case,
                     "%s: assertion #%d mentions %s, which the formula does not\n text=%s" % (how, strange[0][0], strange[0][1], text[:700]))
            continue
        try:
            for i, (b, t) in enumerate(zip(bs, got)):
                unb = any(ty in (INT, REAL) for s_ in subterms(b) if s_[0] in ("FORALL", "EXISTS") for (_, ty) in s_[1])
                for I in interps:
                    v0 = Evaluator(I, cards, window=WINDOW if unb else None).eval(b)
                    v1 = Evaluator(I, cards, window=WINDOW if unb else None).eval(t)
                    if v0 != v1:
                        run.fail({"subcheck": "smtlib:value", "printer": "multi-script", "class": "assert-%d" % min(i, 1)}, case,
                                 "%s: assertion #%d denotes %r, the formula %r under %r\n formula=%s\n text=%s" % (
                                     how, i, v1, v0, I, show(b), text[:900]))
                        raise StopIteration
        except StopIteration:
            continue
        except (Unconstrained, NoSemantics):
            run.discard("no-semantics")


def shard(shard, seed, n):
    run = Run(PID)

    def body(rnd):
        t, g, cards, extra = gen_case(rnd, shard)
        check_formula(run, t, g, cards)
        if extra:
            check_multi_script(run, [t] + extra, g, cards)
    drive(body, st.randoms(use_true_random=True), n, derive_seed(seed, "c07", shard))
    return run


def shard_enum(shard, nshards, stride, offset):
    """Bounded-exhaustive: every printer on every one- / two-operator term (vf/enumterms.py)."""
    import itertools
    import random
    from vf import enumterms
    run = Run(PID)
    g = G(cfg=CFGS[3], rnd=random.Random(0))
    idx = 0
    for t in itertools.chain((x for v in enumterms.depth1().values() for x in v), enumterms.depth2()):
        idx += 1
        if idx % nshards != shard or (idx // nshards) % stride != offset % stride:
            continue
        check_formula(run, t, g, {})
        run.cls("enumerated-two-operator-term")
    return run


def main():
    chk = Check(PID, "exploration", RULE, assumptions=[
        "independent reader vf/smtref.py implements the SMT-LIB 2.6 lexicon, parallel let, lexical scoping, strict sorting",
        "reference evaluator vf/refsem.py; formulas with Int/Real binders are compared under a finite window for the "
        "binders on BOTH sides (sound for comparing two renderings of one formula)",
        "names containing | or backslash are not generated (SMT-LIB 2.6 cannot spell them)"])
    thorough = chk.tier == "thorough"
    jobs = [(shard, dict(shard=s, seed=chk.seed, n=20000 if thorough else 1000)) for s in range(16)]
    jobs += [(shard_enum, dict(shard=s, nshards=16, stride=1 if thorough else 16, offset=chk.seed)) for s in range(16)]
    chk.add(run_shards(jobs))
    chk.floor("name-needs-quoting", 2000)
    chk.floor("evaluated", 5000)
    chk.floor("evaluated-windowed", 100)
    chk.floor("printer:multi-script/dag", 1000)
    for o in ("ARRAY_VALUE", "FORALL", "FUNCTION", "BV_EXTRACT", "BV_ROL", "STR_CONCAT", "DIV", "TOREAL"):
        chk.floor("op:" + o, 100)
    return chk.finish()


def replay(rec):
    import random
    run = Run(PID, known=[])
    c = rec["case"]
    if "bps" in c:
        check_multi_script(run, c["bps"], G(cfg=CFGS[0], rnd=random.Random(0)), c["cards"])
    else:
        check_formula(run, c["bp"], G(cfg=CFGS[0], rnd=random.Random(0)), c["cards"])
    if run.violations:
        print("VIOLATION property=%s replay=(replayed)" % PID)
        print(run.violations[0]["detail"])
        return 1
    print("replay: no violation")
    return 0
