"""C13 - detected logic covers the formula; logic ordering and selection are sound."""
import itertools
import warnings

from hypothesis import strategies as st

from pysmt.environment import Environment
import pysmt.logics as L
from pysmt.logics import Theory, Logic
from pysmt.exceptions import NoLogicAvailableError

from vf import bp as B
from vf.bp import BOOL, INT, REAL, STRING, BV, is_bv, is_arr, is_fun, is_sort, show, subterms
from vf.refsem import reftype, reffv, IllTyped
from vf.gen import G, Cfg
from vf.harness import Run, Check, run_shards, drive, derive_seed
from vf import pys
from vf.checks.c12 import type_components

warnings.filterwarnings("ignore")

PID = "C13"
RULE = ("(detection) generated formulas of all theories: get_logic / theoryo.get_theory / the set-logic chosen by "
        "smtlibscript_from_formula must enable every feature an independent extraction finds (BV, Int, Real, strings, "
        "arrays, const arrays, UF, custom sorts, quantifiers, non-linear).  (order) reflexivity / antisymmetry / "
        "transitivity of <= and combine-is-an-upper-bound over ALL pairs/triples of the 1728 well-formed theories and of "
        "the named logics; < > >= consistent with <=.  (selection) get_closer_logic / most_generic_logic over every "
        "target x drawn subsets of LOGICS + the shipped supported-logic lists.  non-trivial = formula with >=2 feature "
        "families or a feature visible only through a result sort / binder; subsets with incomparable candidates; "
        "distinct by blueprint hash / (target, subset)")

FEATS = ["bit_vectors", "integer_arithmetic", "real_arithmetic", "strings", "arrays", "arrays_const",
         "uninterpreted", "custom_type", "nonlinear", "quantifiers"]


def has_symbols(t):
    """The term has free symbols of its own (a closed term - e.g. an ITE on a closed quantified condition -
    is a constant as far as linearity is concerned)."""
    return bool(reffv(t))


def reffeatures(b):
    feats = set()
    tys = set()
    tm = {}
    for s in subterms(b):
        op, params, ch = s
        type_components(reftype(s, tm), tys)
        if op == "SYMBOL":
            type_components(params[1], tys)
        elif op == "FUNCTION":
            feats.add("uninterpreted")
            type_components(params[1], tys)
        elif op in ("FORALL", "EXISTS"):
            feats.add("quantifiers")
            for (_, t) in params:
                type_components(t, tys)
        elif op == "ARRAY_VALUE":
            feats.add("arrays_const")
            feats.add("arrays")
            type_components(params[0], tys)
        elif op == "TIMES":
            if sum(1 for c in ch if has_symbols(c)) >= 2:
                feats.add("nonlinear")
        elif op == "DIV":
            if has_symbols(ch[1]):
                feats.add("nonlinear")
        elif op == "POW":
            feats.add("nonlinear")
        if op.startswith("STR_") or op == "INT_TO_STR":
            feats.add("strings")
    for t in tys:
        if is_bv(t):
            feats.add("bit_vectors")
        elif t == INT:
            feats.add("integer_arithmetic")
        elif t == REAL:
            feats.add("real_arithmetic")
        elif t == STRING:
            feats.add("strings")
        elif is_arr(t):
            feats.add("arrays")
        elif is_sort(t):
            feats.add("custom_type")
        elif is_fun(t):
            feats.add("uninterpreted")
    return feats


def linear_form(t):
    """Blueprint of an Int / Real term -> {symbol name: coefficient} (constant under None), or None if the term is
    not built from symbols, constants, +, - and products with constants only."""
    from fractions import Fraction
    op, params, ch = t
    if op == "SYMBOL":
        return {params[0]: Fraction(1)}
    if op == "CONST":
        return {None: Fraction(params[1])} if params[0] in (INT, REAL) else None
    if op in ("PLUS", "MINUS"):
        out = {}
        for i, c in enumerate(ch):
            f = linear_form(c)
            if f is None:
                return None
            sgn = -1 if (op == "MINUS" and i > 0) else 1
            for k, v in f.items():
                out[k] = out.get(k, 0) + sgn * v
        return out
    if op == "TIMES":
        fs = [linear_form(c) for c in ch]
        if any(f is None for f in fs):
            return None
        consts = [f for f in fs if set(f) <= {None}]
        others = [f for f in fs if not set(f) <= {None}]
        if len(others) > 1:
            return None
        k = Fraction(1)
        for f in consts:
            k *= f.get(None, 0)
        return {n: v * k for n, v in (others[0] if others else {None: Fraction(1)}).items()}
    return None


def _divides_a_variable(t):
    """A division whose dividend mentions a symbol, reached through arithmetic operators and ITE branches only."""
    if t[0] == "DIV":
        return any(x[0] == "SYMBOL" for x in subterms(t[2][0])) or _divides_a_variable(t[2][0])
    if t[0] in ("PLUS", "MINUS", "TIMES"):
        return any(_divides_a_variable(c) for c in t[2])
    if t[0] == "ITE":
        return _divides_a_variable(t[2][1]) or _divides_a_variable(t[2][2])
    return False


def outside_difference_logic(b, sort):
    """An arithmetic atom that is certainly not a difference constraint (x - y ~ c): more than two variables, a
    coefficient other than +1 / -1, or two variables of the same sign.  Atoms this cannot normalise are not judged."""
    for t in subterms(b):
        if t[0] in ("LE", "LT", "EQUALS") and len(t[2]) == 2:
            try:
                if reftype(t[2][0]) != sort:
                    continue
            except IllTyped:
                continue
            # a term-level ITE stands for either branch (the atom is a difference constraint only if it is one for
            # every choice of branches)
            if _divides_a_variable(t[2][0]) or _divides_a_variable(t[2][1]):
                return t            # an integer division of a term with variables is no part of a difference constraint
            ls, rs = linear_alternatives(t[2][0]), linear_alternatives(t[2][1])
            if ls is None or rs is None:
                continue
            for l in ls:
                for r in rs:
                    d = dict(l)
                    for k, v in r.items():
                        d[k] = d.get(k, 0) - v
                    coefs = [v for k, v in d.items() if k is not None and v != 0]
                    if len(coefs) > 2 or any(abs(v) != 1 for v in coefs) or (len(coefs) == 2 and coefs[0] == coefs[1]):
                        return t
    return None


def linear_alternatives(t, cap=16):
    """The linear forms a term can take when each of its top-level ITEs is resolved either way; None if some
    alternative has no linear form (or there are too many)."""
    if t[0] == "ITE":
        a, b = linear_alternatives(t[2][1], cap), linear_alternatives(t[2][2], cap)
        if a is None or b is None or len(a) + len(b) > cap:
            return None
        return a + b
    if t[0] in ("PLUS", "MINUS") and any(c[0] == "ITE" for c in t[2]):
        outs = [{}]
        for i, c in enumerate(t[2]):
            alts = linear_alternatives(c, cap)
            if alts is None:
                return None
            sgn = -1 if (t[0] == "MINUS" and i > 0) else 1
            nxt = []
            for o in outs:
                for a in alts:
                    d = dict(o)
                    for k, v in a.items():
                        d[k] = d.get(k, 0) + sgn * v
                    nxt.append(d)
            if len(nxt) > cap:
                return None
            outs = nxt
        return outs
    f = linear_form(t)
    return None if f is None else [f]


def theory_lacks(theory, feats):
    miss = []
    for f in feats:
        if f == "nonlinear":
            if theory.linear:
                miss.append(f)
        elif f == "quantifiers":
            continue
        elif not getattr(theory, f):
            miss.append(f)
    return miss


def check_detection(run, bp):
    from pysmt.oracles import get_logic
    from pysmt.smtlib.script import smtlibscript_from_formula
    env = Environment()
    with env:
        try:
            f = pys.build(env, bp)
        except Exception:
            run.discard("rejected-by-constructor")
            return
        b = pys.decode(f)
        try:
            feats = reffeatures(b)
        except IllTyped:
            run.discard("illtyped")
            return
        fam = feats - {"arrays_const"}
        via_result = False
        symtys = set()
        for (_, t) in reffv(b):
            type_components(t, symtys)
        if ("integer_arithmetic" in feats and INT not in symtys) or ("strings" in feats and STRING not in symtys) \
                or ("quantifiers" in feats):
            via_result = True
        nontriv = len(fam) >= 2 or via_result
        run.case(key=b, nontrivial=nontriv,
                 sample={"formula": show(b, 160), "features": sorted(feats)} if nontriv and len(fam) >= 3 else None)
        for ft in feats:
            run.cls("feature:" + ft)
        case = {"bp": bp}
        th = env.theoryo.get_theory(f)
        miss = theory_lacks(th, feats)
        if miss:
            run.fail({"subcheck": "detect:get_theory", "missing": miss[0]}, case,
                     "get_theory lacks %r for %s\n theory: %s" % (miss, show(b), th))
        for flag, sort in ((th.integer_difference, INT), (th.real_difference, REAL)):
            # (the flag of a theory that is not linear labels nothing: no logic is both, and such a theory is below no
            #  difference logic in the order - it is never handed to one)
            bad = outside_difference_logic(b, sort) if (flag and th.linear) else None
            if bad is not None:
                run.cls("difference-logic-judged")
                run.fail({"subcheck": "detect:difference-logic"}, case,
                         "the detected theory is a difference logic (%s) but %s is not a difference constraint\n formula=%s" % (
                             th, show(bad, 200), show(b, 300)))
        try:
            lg = get_logic(f, env)
        except NoLogicAvailableError:
            run.discard("no-logic-available")
            lg = None
        if lg is not None:
            miss = theory_lacks(lg.theory, feats)
            if "quantifiers" in feats and lg.quantifier_free:
                miss.append("quantifiers")
            if miss:
                run.fail({"subcheck": "detect:get_logic", "missing": miss[0]}, case,
                         "get_logic = %s lacks %r for %s" % (lg, miss, show(b)))
            try:
                sl = smtlibscript_from_formula(f).commands[0].args[0]
            except NoLogicAvailableError:
                sl = None
            if isinstance(sl, Logic):
                miss = theory_lacks(sl.theory, feats)
                if "quantifiers" in feats and sl.quantifier_free:
                    miss.append("quantifiers")
                if miss:
                    run.fail({"subcheck": "detect:script-logic", "missing": miss[0]}, case,
                             "set-logic %s lacks %r for %s" % (sl, miss, show(b)))
        # mutable answers: a sub-formula queried after its super-formula must not have been altered
        for c in f.args():
            if c.get_type().is_function_type():
                continue
            cb = pys.decode(c)
            m2 = theory_lacks(env.theoryo.get_theory(c), reffeatures(cb))
            extra = [x for x in FEATS[:8] if getattr(env.theoryo.get_theory(c), x) and x not in reffeatures(cb)
                     and x not in ("integer_arithmetic", "real_arithmetic")]
            if m2:
                run.fail({"subcheck": "detect:get_theory-subformula", "missing": m2[0]}, case,
                         "get_theory(sub-formula %s) lacks %r after the super-formula was queried" % (show(cb), m2))


CFGS = [Cfg(max_depth=3), Cfg(max_depth=4, quant_unbounded=True), Cfg(max_depth=2, share=10),
        Cfg(max_depth=3, theories={"bool", "int", "real", "str", "bv"}),
        Cfg(max_depth=3, theories={"bool", "int", "real", "quant", "uf"}, pow=True, quant_unbounded=True),
        # instances of parametric sorts: declaring a symbol of sort (P S2 Int) needs the Int sort
        Cfg(max_depth=3, theories={"bool", "sort", "uf", "arr", "quant"},
            sorts=["S1", "L{S1}", "P{S2, Int}", "L{Real}", "L{L{String}}"])]


def shard_detect(shard, seed, n):
    run = Run(PID)
    cfg = CFGS[shard % len(CFGS)]

    @st.composite
    def strat(draw):
        g = G(cfg=cfg, rnd=draw(st.randoms(use_true_random=True)))
        return g.term(BOOL if g.pct(80) else g.ty())

    def body(t):
        check_detection(run, t)
    drive(body, strat(), n, derive_seed(seed, "c13d", shard))
    return run


def difference_shaped_atoms():
    """Every relation L ~ R over a small grammar of sums and differences of up to four symbols and constants (both
    arithmetic sorts): the shapes around the border of difference logic."""
    for T in (INT, REAL):
        x, y, z, w = [("SYMBOL", ("dl%s_%s" % (n, "i" if T == INT else "r"), T), ()) for n in "xyzw"]
        k0, k1, k2, km = [("CONST", (T, v), ()) for v in (0, 1, 2, -1)]
        sides = [x, k0, k1, ("MINUS", (), (x, y)), ("MINUS", (), (y, x)), ("MINUS", (), (z, w)), ("MINUS", (), (y, z)),
                 ("PLUS", (), (x, k1)), ("PLUS", (), (("MINUS", (), (x, y)), k2)), ("PLUS", (), (x, y)),
                 ("MINUS", (), (("MINUS", (), (x, y)), z)), ("TIMES", (), (k2, x)), ("TIMES", (), (km, y)),
                 ("MINUS", (), (x, x)), ("PLUS", (), (z, ("TIMES", (), (km, w)))), ("MINUS", (), (k1, x)), z,
                 ("ITE", (), (("SYMBOL", ("dlp", BOOL), ()), z, w)), ("ITE", (), (("SYMBOL", ("dlp", BOOL), ()), ("MINUS", (), (x, y)), ("MINUS", (), (z, w)))),
                 ("ITE", (), (("SYMBOL", ("dlp", BOOL), ()), x, k1)), ("MINUS", (), (x, ("ITE", (), (("SYMBOL", ("dlp", BOOL), ()), y, z))))]
        if T == INT:
            # integer division by a constant (the Real one is a product at construction)
            sides += [("DIV", (), (x, k2)), ("DIV", (), (("MINUS", (), (x, y)), k2))]
        for op in ("LE", "LT", "EQUALS"):
            for l in sides:
                for r in sides:
                    yield (op, (), (l, r))


def shard_detect_enum(shard, nshards, stride, offset):
    """Bounded-exhaustive: detection on every one- / two-operator term and connective / quantifier combination."""
    from vf import enumterms
    run = Run(PID)
    idx = 0
    for t in itertools.chain(enumterms.bool_quant_terms(), (x for v in enumterms.depth1().values() for x in v),
                             enumterms.depth2()):
        idx += 1
        if idx % nshards != shard:
            continue
        if idx > 9000 and (idx // nshards) % stride != offset % stride:
            continue
        check_detection(run, t)
    for idx, t in enumerate(difference_shaped_atoms()):
        if idx % nshards == shard:
            check_detection(run, t)
            run.cls("difference-shaped-atom")
        run.cls("enumerated-term")
    return run


def shard_handed_to(shard, seed, n):
    """'Never handed to a logic that cannot express it': the one-shot factory queries (is_sat / is_valid / is_unsat /
    get_model, logic omitted or AUTO) on a generic solver that declares a few logics and logs the commands it
    receives.  Whatever the query answers, the (set-logic X) the process saw must enable every feature of the
    formula."""
    import json
    import os
    import shutil
    import tempfile
    from pysmt.logics import AUTO
    from vf.checks.c17 import REFSOLVER
    run = Run(PID)
    logics = sorted(L.PYSMT_LOGICS, key=str)

    def body(rnd):
        g = G(cfg=CFGS[rnd.choice([0, 2, 3, 4])], rnd=rnd)
        bp = g.term(BOOL)
        env = Environment()
        tmp = tempfile.mkdtemp(prefix="c13_")
        log = os.path.join(tmp, "log.jsonl")
        try:
            with env:
                try:
                    f = pys.build(env, bp)
                    feats = reffeatures(pys.decode(f))
                except Exception:
                    return
                declared = rnd.sample(logics, rnd.randint(2, 5))
                env.factory.add_generic_solver("gen", REFSOLVER + ["--log", log], declared)
                how = rnd.choice(["is_sat", "is_valid", "is_unsat", "get_model"])
                lg = rnd.choice([None, AUTO])
                try:
                    # by name, or by preference (the generic solver is the only one installed)
                    getattr(env.factory, how)(f, solver_name=rnd.choice(["gen", None]), logic=lg)
                except Exception:
                    pass
            sent = None
            if os.path.exists(log):
                for line in open(log):
                    try:
                        cmd = json.loads(line)["cmd"] or ""
                    except ValueError:
                        continue        # (a record truncated by the end of the process is not information)
                    if cmd.startswith("(set-logic"):
                        sent = cmd.split()[1].rstrip(")")
                        break
            case = {"bp": bp, "declared": [str(l) for l in declared], "query": how, "logic_arg": str(lg)}
            run.case(key=(bp, tuple(case["declared"]), how, str(lg)), nontrivial=sent is not None)
            if sent is None:
                run.cls("handed-to:no-solver-started")
                return
            run.cls("handed-to:solver-started")
            sl = {str(l): l for l in declared}.get(sent)
            if sl is None:
                run.fail({"subcheck": "select:handed-to-undeclared-logic"}, case,
                         "the solver declaring %s was given (set-logic %s)" % (case["declared"], sent))
                return
            miss = theory_lacks(sl.theory, feats)
            if "quantifiers" in feats and sl.quantifier_free:
                miss.append("quantifiers")
            if miss or sl not in declared:
                run.fail({"subcheck": "select:handed-to", "query": how}, case,
                         "%s(logic=%s): the solver declaring %s was created with (set-logic %s), which lacks %r for %s" % (
                             how, lg, case["declared"], sent, miss, show(bp, 200)))
        finally:
            shutil.rmtree(tmp, ignore_errors=True)
            for junk in ('"stdout"', "stdout"):
                try:
                    if os.path.exists(junk) and os.path.getsize(junk) == 0:
                        os.remove(junk)
                except Exception:
                    pass
    drive(body, st.randoms(use_true_random=True), n, derive_seed(seed, "c13h", shard))
    return run


# ---------------------------------------------------------------- order axioms

FIELDS = ["arrays", "arrays_const", "bit_vectors", "floating_point", "integer_arithmetic", "real_arithmetic",
          "integer_difference", "real_difference", "linear", "uninterpreted", "custom_type", "strings"]


def wellformed_theories():
    out = []
    for bits in itertools.product([False, True], repeat=len(FIELDS)):
        kw = dict(zip(FIELDS, bits))
        if kw["arrays_const"] and not kw["arrays"]:
            continue
        if kw["integer_difference"] and not kw["integer_arithmetic"]:
            continue
        if kw["real_difference"] and not kw["real_arithmetic"]:
            continue
        out.append(Theory(**kw))
    return out


def tkey(t):
    return tuple(getattr(t, f) for f in FIELDS)


def shard_theory_order(shard, nshards):
    run = Run(PID)
    ths = wellformed_theories()
    n = len(ths)
    # rows of the <= relation as bit masks
    rows = []
    for a in ths:
        m = 0
        for j, b in enumerate(ths):
            if a <= b:
                m |= 1 << j
        rows.append(m)
    for i, a in enumerate(ths):
        if i % nshards != shard:
            continue
        ra = rows[i]
        if not (ra >> i) & 1:
            run.fail({"subcheck": "order:theory-reflexive"}, {"theory": tkey(a)}, "not (t <= t) for %s" % a)
        for j, b in enumerate(ths):
            le_ab = (ra >> j) & 1
            if le_ab:
                # transitivity: everything above b is above a
                if rows[j] & ~ra:
                    k = (rows[j] & ~ra).bit_length() - 1
                    run.fail({"subcheck": "order:theory-transitive"}, {"a": tkey(a), "b": tkey(b), "c": tkey(ths[k])},
                             "a<=b, b<=c but not a<=c:\n a=%s\n b=%s\n c=%s" % (a, b, ths[k]))
                if i != j and (rows[j] >> i) & 1:
                    run.fail({"subcheck": "order:theory-antisymmetric"}, {"a": tkey(a), "b": tkey(b)},
                             "a<=b and b<=a but a!=b:\n a=%s\n b=%s" % (a, b))
            c = a.combine(b)
            if not (a <= c and b <= c):
                run.fail({"subcheck": "order:combine-upper-bound"}, {"a": tkey(a), "b": tkey(b)},
                         "combine(a,b) is not above both:\n a=%s\n b=%s\n c=%s" % (a, b, c))
            if (a == b) != (i == j) or (a != b) != (i != j):
                run.fail({"subcheck": "order:theory-eq"}, {"a": tkey(a), "b": tkey(b)}, "== / != inconsistent")
            run.case(key=("t", i, j), nontrivial=i != j, n=1)
        run.cls("theory-rows")
    return run


def check_logic_order(run):
    logics = sorted(L.LOGICS, key=str)
    for a in logics:
        if not a <= a:
            run.fail({"subcheck": "order:logic-reflexive"}, {"a": str(a)}, "not %s <= %s" % (a, a))
        for b in logics:
            run.case(key=("l", str(a), str(b)), nontrivial=a is not b)
            le, ge, lt, gt = a <= b, a >= b, a < b, a > b
            if ge != (b <= a) or lt != (le and a != b) or gt != ((b <= a) and a != b):
                run.fail({"subcheck": "order:logic-derived-relations"}, {"a": str(a), "b": str(b)},
                         "%s vs %s: <= %r >= %r < %r > %r" % (a, b, le, ge, lt, gt))
            if le and (b <= a) and not (a.theory == b.theory and a.quantifier_free == b.quantifier_free):
                run.fail({"subcheck": "order:logic-antisymmetric"}, {"a": str(a), "b": str(b)},
                         "%s <= %s <= %s but they differ" % (a, b, a))
            if le:
                for c in logics:
                    if b <= c and not a <= c:
                        run.fail({"subcheck": "order:logic-transitive"}, {"a": str(a), "b": str(b), "c": str(c)},
                                 "%s <= %s <= %s but not %s <= %s" % (a, b, c, a, c))
    run.cls("logic-pairs", len(logics) ** 2)
    # what a named logic declares must be what its SMT-LIB name says (the name is what a script is labelled with)
    import re
    for a in sorted(set(L.LOGICS) | set(L.PYSMT_LOGICS), key=str):
        m = re.fullmatch(r"(QF_)?(BOOL|(?:(AX|A)?(UF)?(BV)?(S)?(IDL|RDL|[LN](?:IRA|IA|RA))?))(\*)?(t)?", str(a))
        run.case(key=("name", str(a)), nontrivial=True)
        run.cls("logic-name-vs-declaration")
        if not m:
            run.discard("logic-name-not-understood")
            continue
        qf, _body, ax, uf, bv, st_, ar, star, ct = m.groups()
        want = dict.fromkeys(FIELDS, False)
        want.update(linear=True, arrays=bool(ax), arrays_const=bool(star), uninterpreted=bool(uf), bit_vectors=bool(bv),
                    strings=bool(st_), custom_type=bool(ct))
        if ar == "IDL":
            want.update(integer_arithmetic=True, integer_difference=True)
        elif ar == "RDL":
            want.update(real_arithmetic=True, real_difference=True)
        elif ar:
            want.update(linear=ar[0] == "L", integer_arithmetic="I" in ar[1:], real_arithmetic=ar.endswith("RA"))
        # judged in the direction that matters for "never labelled with a logic that cannot express it": the declaration
        # must not promise MORE than the name (a restriction flag - linear, difference - that the name has but the
        # declaration lacks; a feature flag that the declaration has but the name lacks)
        RESTRICTIONS = ("linear", "integer_difference", "real_difference")
        diffs = [(f, getattr(a.theory, f), want[f]) for f in FIELDS
                 if (getattr(a.theory, f) and not want[f] and f not in RESTRICTIONS) or
                    (want[f] and not getattr(a.theory, f) and f in RESTRICTIONS)]
        if st_:
            # (the string logics have no official definition: whether they include free function symbols is not judged)
            diffs = [d for d in diffs if d[0] != "uninterpreted"]
        if bool(qf) and not a.quantifier_free:
            diffs.append(("quantifier_free", a.quantifier_free, bool(qf)))
        if diffs:
            run.fail({"subcheck": "order:logic-name-vs-declaration"}, {"a": str(a)},
                     "the logic named %s declares %s" % (a, ", ".join("%s=%r (its name says %r)" % d for d in diffs)))
    # the quantified version of a logic ("closest supported logic" of the same theory with quantifiers): a supported,
    # quantified logic at least as expressive - or no logic at all
    from pysmt.exceptions import NoLogicAvailableError
    for a in logics:
        run.case(key=("quantified-version", str(a)), nontrivial=a.quantifier_free)
        run.cls("quantified-version")
        try:
            q = a.get_quantified_version()
        except NoLogicAvailableError:
            run.cls("quantified-version:none-available")
            continue
        bad = None
        if q.quantifier_free:
            bad = "is quantifier-free"
        elif not a <= q:
            bad = "is not at least as expressive"
        elif q not in L.PYSMT_LOGICS and a.quantifier_free:
            bad = "is not a supported logic"
        else:
            target = L.Logic(name="", description="", quantifier_free=False, theory=a.theory)
            between = [x for x in L.PYSMT_LOGICS if target <= x and x <= q and not q <= x]
            if between and a.quantifier_free:
                bad = "is not the closest one (%s is in between)" % between[0]
        if bad:
            run.fail({"subcheck": "selection:quantified-version"}, {"a": str(a)},
                     "%s.get_quantified_version() = %s, which %s" % (a, q, bad))


# ---------------------------------------------------------------- selection

def check_selection(run, supported, target, label):
    supported = list(supported)
    above = [l for l in supported if target <= l]
    key = (label, str(target), tuple(sorted(map(str, supported))))
    try:
        r = L.get_closer_logic(supported, target)
    except NoLogicAvailableError:
        r = None
    except Exception as e:
        run.case(key=key, nontrivial=True)
        run.fail({"subcheck": "select:closer-raised", "exc": type(e).__name__},
                 {"supported": [str(l) for l in supported], "target": str(target)},
                 "get_closer_logic raised %s: %s for target %s and supported %s" % (type(e).__name__, e, target, supported))
        return
    minimal = [l for l in above if not any(k != l and k <= l and not (l <= k) for k in above)]
    run.case(key=key, nontrivial=len(minimal) >= 2 or (not above))
    if len(minimal) >= 2:
        run.cls("incomparable-candidates")
    case = {"supported": [str(l) for l in supported], "target": str(target)}
    if r is None:
        if above:
            run.fail({"subcheck": "select:closer-raised"}, case,
                     "get_closer_logic raised although %s are above %s" % (above, target))
        else:
            run.cls("no-candidate")
    else:
        if r not in supported or not (target <= r):
            run.fail({"subcheck": "select:closer-not-above"}, case, "returned %s for target %s" % (r, target))
        between = [k for k in supported if target <= k and k <= r and not (r <= k)]
        if between:
            run.fail({"subcheck": "select:closer-not-minimal"}, case,
                     "returned %s for %s although %s lie strictly in between" % (r, target, between))
        if not above:
            run.fail({"subcheck": "select:closer-invented"}, case, "returned %s but nothing is above" % r)
    # most generic
    tops = [l for l in supported if all(x <= l for x in supported)]
    try:
        g = L.most_generic_logic(supported)
    except NoLogicAvailableError:
        g = None
    if g is None:
        if len(tops) == 1:
            run.fail({"subcheck": "select:most-generic-raised"}, case, "raised although %s is above all" % tops)
    else:
        if g not in supported or not all(x <= g for x in supported):
            run.fail({"subcheck": "select:most-generic-wrong"}, case, "returned %s" % g)


def shard_selection(shard, nshards, seed, nsubsets):
    run = Run(PID)
    logics = sorted(L.LOGICS, key=str)
    fixed = {"PYSMT_LOGICS": L.PYSMT_LOGICS, "SMTLIB2_LOGICS": L.SMTLIB2_LOGICS, "PYSMT_QF_LOGICS": L.PYSMT_QF_LOGICS,
             "BV_LOGICS": L.BV_LOGICS, "ARRAYS_LOGICS": L.ARRAYS_LOGICS}
    for modname, cls in (("pysmt.solvers.bdd", "BddSolver"), ("pysmt.solvers.qelim", "ShannonQuantifierEliminator")):
        try:
            mod = __import__(modname, fromlist=[cls])
            fixed[cls] = getattr(mod, cls).LOGICS
        except Exception:
            pass
    if shard == 0:
        for name, sup in fixed.items():
            for t in logics:
                check_selection(run, sorted(sup, key=str), t, name)

    def factory_queries(rnd):
        """Solvers that declare a list of logics (never launched): the factory's support queries and its
        pre-selection must agree with 'some declared logic is at least as expressive as the target'."""
        from pysmt.environment import Environment
        env = Environment()
        decl = {}
        for i in range(3):
            decl["gen%d" % i] = rnd.sample(logics, rnd.randint(1, 3))
            env.factory.add_generic_solver("gen%d" % i, ["/bin/false"], decl["gen%d" % i])
        for t in rnd.sample(logics, 25):
            got = env.factory.all_solvers(logic=t)
            for name, dl in decl.items():
                want = any(t <= l for l in dl)
                run.case(key=("factory", name, str(t), tuple(map(str, dl))), nontrivial=True)
                run.cls("factory-support-query")
                if (name in got) != want:
                    run.fail({"subcheck": "select:factory-support"},
                             {"declared": [str(l) for l in dl], "target": str(t)},
                             "all_solvers(logic=%s) %s a solver declaring %s" % (
                                 t, "lists" if name in got else "omits", [str(l) for l in dl]))
            if env.factory.has_solvers(logic=t) != bool(got):
                run.fail({"subcheck": "select:factory-support"}, {"target": str(t)}, "has_solvers(%s) disagrees with all_solvers" % t)

    def body(rnd):
        for _ in range(max(1, nsubsets // 4)):
            factory_queries(rnd)
        for _ in range(nsubsets):
            k = rnd.randint(1, 20)
            sup = rnd.sample(logics, k)
            for t in rnd.sample(logics, 12):
                check_selection(run, sup, t, "subset")
            # also targets that are not named logics
            th = rnd.choice(logics).theory.combine(rnd.choice(logics).theory)
            check_selection(run, sup, Logic("anon", "", quantifier_free=rnd.random() < 0.5, theory=th), "subset-anon")
            # a user-defined logic with the content of a named one (another name) among the supported logics
            twin_of = rnd.choice(sup)
            clone = Logic("clone of " + str(twin_of), "", quantifier_free=twin_of.quantifier_free, theory=twin_of.theory)
            for t in rnd.sample(logics, 6):
                check_selection(run, sup + [clone], t, "subset-with-clone")
            # the order relations between a logic and its renamed copy
            if (clone < twin_of) or (twin_of < clone) or (clone > twin_of) or not (clone <= twin_of and twin_of <= clone):
                run.fail({"subcheck": "order:renamed-copy"}, {"logic": str(twin_of)},
                         "%s and a copy of it under another name: <  gives %r / %r, <= gives %r / %r" % (
                             twin_of, clone < twin_of, twin_of < clone, clone <= twin_of, twin_of <= clone))
    drive(body, st.randoms(use_true_random=True), 1, derive_seed(seed, "c13s", shard))
    return run


def shard_logic_order():
    run = Run(PID)
    check_logic_order(run)
    return run


def main():
    chk = Check(PID, "exploration", RULE, assumptions=[
        "feature extraction in vf/checks/c13.py reffeatures: non-linear = product with >=2 factors mentioning symbols, "
        "division whose divisor mentions a symbol, or pow; difference logic is judged one-sidedly: an atom whose linear form has more than two variables, a coefficient other than +-1 or two variables of one sign is certainly outside it",
        "theories are restricted to well-formed ones (difference => arithmetic, const arrays => arrays)"])
    thorough = chk.tier == "thorough"
    jobs = [(shard_detect, dict(shard=s, seed=chk.seed, n=30000 if thorough else 1500)) for s in range(10)]
    jobs += [(shard_detect_enum, dict(shard=s, nshards=8, stride=1 if thorough else 8, offset=chk.seed)) for s in range(8)]
    jobs += [(shard_theory_order, dict(shard=s, nshards=16)) for s in range(16)]
    jobs += [(shard_logic_order, dict())]
    jobs += [(shard_handed_to, dict(shard=s, seed=chk.seed, n=400 if thorough else 25)) for s in range(8)]
    jobs += [(shard_selection, dict(shard=s, nshards=4, seed=chk.seed, nsubsets=4000 if thorough else 250)) for s in range(4)]
    chk.add(run_shards(jobs))
    chk.exhaustive.append("all pairs (and, through the relation's bit rows, all triples) of the 1728 well-formed theories")
    chk.exhaustive.append("all pairs and triples of the %d named logics" % len(L.LOGICS))
    chk.exhaustive.append("every named target x each shipped supported-logic list")
    chk.floor("theory-rows", 1728)
    chk.floor("incomparable-candidates", 200)
    for ft in FEATS:
        chk.floor("feature:" + ft, 100)
    return chk.finish()


def replay(rec):
    run = Run(PID, known=[])
    c = rec["case"]
    if "bp" in c:
        check_detection(run, c["bp"])
    elif "declared" in c:
        from pysmt.environment import Environment
        byname = {str(l): l for l in L.LOGICS}
        env = Environment()
        env.factory.add_generic_solver("gen", ["/bin/false"], [byname[n] for n in c["declared"]])
        t = byname[c["target"]]
        want = any(t <= byname[n] for n in c["declared"])
        if ("gen" in env.factory.all_solvers(logic=t)) != want:
            run.fail({"subcheck": "select:factory-support"}, c, "all_solvers(logic=%s) disagrees for a solver declaring %s" % (t, c["declared"]))
    elif "supported" in c:
        byname = {str(l): l for l in L.LOGICS}
        if c["target"] in byname:
            check_selection(run, [byname[n] for n in c["supported"]], byname[c["target"]], "replay")
    else:
        r1 = shard_theory_order(0, 1)
        check_logic_order(run)
        run.violations += r1.violations
    if run.violations:
        print("VIOLATION property=%s replay=(replayed)" % PID)
        print(run.violations[0]["detail"])
        return 1
    print("replay: no violation")
    return 0
