"""C17 - text-interface solvers: legal command stream, replies in sync, faithful model."""
import json
import os
import tempfile
import warnings
import itertools

from hypothesis import strategies as st

from pysmt.environment import Environment
from pysmt.logics import QF_UFBV, QF_BV, PYSMT_LOGICS

from vf import bp as B
from vf.bp import BOOL, BV, SORT, sym, show, subterms
from vf.refsem import Evaluator, reffv, reftype, Unconstrained
from vf.gen import G, Cfg
from vf.harness import Run, Check, run_shards, drive, derive_seed, ROOT
from vf.common import with_timeout, Timeout
from vf import pys

warnings.filterwarnings("ignore")

PID = "C17"
RULE = ("generated histories of solver-API calls (add_assertion with formulas over Bool / BV<=3 / a finite sort whose "
        "symbols are first used at different levels, push(n), legal pop(n), solve, get_value of terms over live symbols "
        "after sat, get_model, reset_assertions, is_sat / is_valid / is_unsat, and the factory shortcuts is_sat / "
        "is_valid / is_unsat / get_model(solver_name=...)) on SmtLibSolver attached to a strict reference SMT-LIB solver "
        "process (vf/refsolver.py) that rejects illegal streams and logs everything.  (1) the process must never answer "
        "(error ...); (2) every verdict must equal the brute-force truth of the harness' own model of the live assertions; "
        "(3) after sat, get_model() must contain every symbol of the live assertions with the value the process logged "
        "and satisfy them, get_value(t) must equal the logged value; no legal call may raise.  non-trivial = a symbol "
        "first declared inside a pushed level and used again after the pop, a value / model query after a push, or "
        "push(n>1); distinct by history")

REFSOLVER = ["/venv/bin/python", "-B", "-S", os.path.join(ROOT, "vf", "refsolver.py")]
CFG = Cfg(max_depth=3, theories={"bool", "bv", "sort", "uf"}, bv_widths=[1, 2, 3], sorts=["S1", "L{S1}", "L{L{S1}}"], nsyms=3, share=25,
          quant_types=[BOOL])
CFG_NOUF = Cfg(max_depth=3, theories={"bool", "bv", "sort"}, bv_widths=[1, 2, 3], sorts=["S1", "L{S1}"], nsyms=3, share=25,
               quant_types=[BOOL])
CARD = 2


class RefUnknown(Exception):
    """The brute-force reference gave up (search budget): the case is inconclusive."""


def _domain(t):
    return [False, True] if t == BOOL else list(range(1 << t[1])) if t[0] == "BV" else list(range(CARD)) if t[0] == "Sort" else None


def brute(forms):
    """-> True/False: satisfiability of blueprints over the finite domains (function graphs decided lazily)."""
    from vf.funsearch import find_model
    verdict, _ = find_model(forms, {"S1": CARD}, _domain)
    if verdict == "unknown":
        raise RefUnknown()
    return verdict == "sat"


def logged_model(rec):
    """The model the reference solver logged at a check-sat (function symbols as FunV)."""
    from vf.refsem import FunV
    m = rec.get("model")
    if m is None:
        return None
    return {n: (FunV.from_json(v) if isinstance(v, dict) and "$fun" in v else v) for n, v in m.items()}


def gen_history(rnd):
    g = G(cfg=CFG, rnd=rnd)
    ops = []
    depth = 0
    if rnd.random() < 0.15:
        # two instances of one parametric sort, first used at different levels (one declaration of the sort
        # constructor serves both, while it is in scope)
        s1, s2 = rnd.sample([SORT("L{S1}"), SORT("L{L{S1}}"), SORT("S1")], 2)
        ops.append(("assert", ("NOT", (), (("EQUALS", (), (g.symbol(s1), g.symbol(s1))),)) if rnd.random() < 0.5 else ("EQUALS", (), (g.symbol(s1), g.symbol(s1)))))
        lv = rnd.choice([1, 1, 2])
        ops.append(("push", lv))
        depth += lv
        ops.append(("assert", ("EQUALS", (), (g.symbol(s2), g.symbol(s2)))))
        ops.append(("solve",))
        if rnd.random() < 0.5:
            ops.append(("pop", 1))
            depth -= 1
            ops.append(("assert", ("EQUALS", (), (g.symbol(s2), g.symbol(s2)))))
            ops.append(("solve",))
    n = rnd.randint(3, 14)
    for _ in range(n):
        k = rnd.randrange(16)
        if k <= 4:
            ops.append(("assert", g.term(BOOL, rnd.randint(1, 3))))
        elif k == 5:
            lv = rnd.choice([1, 1, 2, 0])
            ops.append(("push", lv))
            depth += lv
        elif k == 6 and (depth > 0 or rnd.random() < 0.3):
            lv = rnd.randint(0, min(2, depth))
            ops.append(("pop", lv))
            depth -= lv
        elif k in (7, 8):
            ops.append(("solve",))
        elif k in (9, 14):
            # mostly a sub-term of what has been asserted (so that its symbols are live), right after a solve
            from vf.bp import subterms
            pool = []
            for o_ in ops:
                if o_[0] == "assert":
                    for s_ in subterms(o_[1]):
                        try:
                            ts_ = reftype(s_)
                        except Exception:
                            continue
                        if ts_ == BOOL or (isinstance(ts_, tuple) and ts_[0] == "BV"):
                            pool.append(s_)
            if rnd.random() < 0.6:
                ops.append(("solve",))
            if pool and rnd.random() < 0.7:
                ops.append(("get_value", rnd.choice(pool)))
            else:
                ops.append(("get_value", g.term(g.choice([BOOL, BV(2), BV(3)]), 2)))
        elif k == 10:
            ops.append(("get_model",))
        elif k == 11:
            ops.append(("reset",))
            depth = 0
        elif k == 12:
            q_ = g.term(BOOL, 2)
            ops.append((rnd.choice(["is_sat", "is_sat", "is_valid", "is_unsat"]), q_))
            if rnd.random() < 0.6:
                # the model of a one-shot query is read right away
                ops.append(("get_model",) if rnd.random() < 0.6 else ("get_value", q_))
        elif k == 13:
            ops.append(("solve",))
            ops.append(("get_model",))
        else:
            ops.append(("assert", g.term(BOOL, 2)))
    if rnd.random() < 0.5:
        ops.append(("solve",))
        ops.append(("get_model",))
    shortcut = None
    if rnd.random() < 0.25:
        shortcut = (rnd.choice(["is_sat", "is_valid", "is_unsat", "get_model"]), G(cfg=CFG_NOUF, rnd=rnd).term(BOOL, 3))
    return ops, shortcut


def _refsolver_children():
    """pids of the reference solver processes started by this process"""
    me = os.getpid()
    out = []
    for d in os.listdir("/proc"):
        if not d.isdigit():
            continue
        try:
            st = open("/proc/%s/stat" % d).read().rsplit(")", 1)[1].split()
            if int(st[1]) == me and b"refsolver" in open("/proc/%s/cmdline" % d, "rb").read():
                out.append(int(d))
        except Exception:
            pass
    return out


def budget_overrun_is_a_block(pids, window=0.8):
    """A call has not returned within its budget.  It is *blocked* (a violation) only if nothing can ever answer: every
    reference process it talks to sleeps and uses no CPU over a window (it waits for a command while pySMT waits for a
    reply), or is gone.  A process that is still working means a slow machine: inconclusive, never a violation."""
    import time

    def snap(pid):
        try:
            st = open("/proc/%d/stat" % pid).read().rsplit(")", 1)[1].split()
            return st[0], int(st[11]) + int(st[12])
        except Exception:
            return None
    a = [snap(p) for p in pids]
    time.sleep(window)
    b = [snap(p) for p in pids]
    for x, y in zip(a, b):
        if x is None or y is None:
            continue
        if y[0] == "R" or x[1] != y[1]:
            return False
    return True


def read_log(path):
    out = []
    try:
        with open(path) as f:
            for line in f:
                try:
                    out.append(json.loads(line))
                except ValueError:
                    # a process that was stopped while it wrote a record leaves a truncated one; the next process of the
                    # same member appends to the same file, so the fragment may be glued to the front of a complete
                    # record: the complete record is recovered, the fragment is not information
                    k = line.rfind('{"cmd"')
                    if k > 0:
                        try:
                            out.append(json.loads(line[k:]))
                        except ValueError:
                            pass
    except FileNotFoundError:
        pass
    return out


def check_history(run, ops, shortcut):
    from pysmt.smtlib.solver import SmtLibSolver
    env = Environment()
    tmp = tempfile.mkdtemp(prefix="c17_")
    log = os.path.join(tmp, "log.jsonl")
    case = {"ops": ops, "shortcut": shortcut}
    frames = [[]]                   # reference: live assertion blueprints
    seen_syms_levels = {}
    nontriv = False
    sat_state = None                # last verdict valid for value queries
    oneshot = []                    # the formula of a satisfiable is_sat whose model can still be read
    solver = None
    try:
        with env:
            try:
                # (in half of the histories the process writes its get-value replies over several lines)
                wrap = ["--wrap"] if len(ops) % 2 else []
                solver = SmtLibSolver(REFSOLVER + wrap + ["--log", log, "--card", str(CARD)], env, QF_UFBV, LOGICS=PYSMT_LOGICS)
            except Exception as e:
                raise RuntimeError("cannot start the reference solver: %s" % e)

            def fail(kind, i, detail):
                run.fail({"subcheck": "smtlibsolver:" + kind, "op": ops[i][0] if i is not None else "shortcut"}, case,
                         "%s\n history=%s\n log tail=%s" % (detail, [o[0] + (str(o[1]) if o[0] in ("push", "pop") else "") for o in ops[:(i or 0) + 1]],
                                                          [r["cmd"][:60] + " -> " + r["reply"][:60] for r in read_log(log)[-4:]]))
            for i, op in enumerate(ops):
                live = [a for fr in frames for a in fr]
                if op[0] not in ("get_model", "get_value"):
                    oneshot = []            # any other command ends the life of a one-shot query's model
                try:
                    if op[0] == "assert":
                        f = pys.build(env, op[1])
                        b = pys.decode(f.simplify())
                        with_timeout(10, lambda: solver.add_assertion(f))
                        frames[-1].append(b)
                        for s in reffv(b):
                            if s in seen_syms_levels and seen_syms_levels[s] > len(frames) - 1:
                                nontriv = True          # declared in a level that has been popped since
                            seen_syms_levels.setdefault(s, len(frames) - 1)
                        sat_state = None
                    elif op[0] == "push":
                        with_timeout(10, lambda: solver.push(op[1]))
                        for _ in range(op[1]):
                            frames.append([])
                        if op[1] > 1:
                            nontriv = True
                        sat_state = None
                    elif op[0] == "pop":
                        with_timeout(10, lambda: solver.pop(op[1]))
                        for _ in range(op[1]):
                            frames.pop()
                        seen_syms_levels = {s: l for s, l in seen_syms_levels.items() if l <= len(frames) - 1}
                        sat_state = None
                    elif op[0] == "reset":
                        with_timeout(10, lambda: solver.reset_assertions())
                        frames = [[]]
                        seen_syms_levels = {}
                        sat_state = None
                    elif op[0] == "solve":
                        r = with_timeout(20, lambda: solver.solve())
                        want = brute(live)
                        if r != want:
                            fail("verdict", i, "solve() returned %r, the live assertions are %s" % (r, "satisfiable" if want else "unsatisfiable"))
                            return
                        sat_state = r
                    elif op[0] in ("is_sat", "is_valid", "is_unsat"):
                        f = pys.build(env, op[1])
                        b = pys.decode(f)
                        r = with_timeout(20, lambda: getattr(solver, op[0])(f))
                        if op[0] == "is_sat":
                            want = brute(live + [b])
                        elif op[0] == "is_unsat":
                            want = not brute(live + [b])
                        else:
                            want = not brute(live + [("NOT", (), (b,))])
                        if r != want:
                            fail("verdict", i, "%s returned %r, truth is %r" % (op[0], r, want))
                            return
                        sat_state = None
                        if op[0] == "is_sat" and r is True:
                            # the model of a satisfiable one-shot query can be read until the next command: it
                            # satisfies the assertions AND the queried formula
                            sat_state = True
                            oneshot = [pys.decode(f.simplify())]       # (what the solver is sent, as for assertions)
                            run.cls("model-after-one-shot-query")
                    elif op[0] == "get_model":
                        if sat_state is not True:
                            continue
                        model = with_timeout(20, lambda: solver.get_model())
                        if len(frames) > 1:
                            nontriv = True
                        logged = logged_model([r for r in read_log(log) if r["cmd"] == "(check-sat)"][-1])
                        live_m = live + oneshot
                        needed = set()
                        for a in live_m:
                            needed |= reffv(a)
                        I = {}
                        for (n, t) in sorted(needed, key=repr):
                            if t[0] == "Fun":
                                # SmtLibSolver.get_model() documents no function interpretations: the solver's own
                                # graph is used to judge the values returned for the other symbols
                                I[n] = logged[n] if logged is not None else None
                                continue
                            s = pys.build(env, sym(n, t))
                            if s not in model:
                                fail("model-incomplete", i, "get_model() has no value for %s, which occurs in the live assertions (model has %s)" % (
                                    n, sorted(k.symbol_name() for k, _ in model)))
                                return
                            if t[0] == "Sort":
                                v = dict(iter(model))[s]        # an element name such as @S1_0 (not a constant)
                                I[n] = int(v.symbol_name().rsplit("_", 1)[1]) if v.is_symbol() else None
                            else:
                                I[n] = model.get_value(s).constant_value()
                            if logged is not None and I[n] != logged.get(n):
                                fail("model-value", i, "get_model() gives %s = %r, the solver reported %r" % (n, I[n], logged.get(n)))
                                return
                        if not all(Evaluator(I, {"S1": CARD}).eval(a) for a in live_m):
                            fail("model-does-not-satisfy", i, "the model %r does not satisfy the live assertions%s" % (
                                I, " and the formula of the one-shot query" if oneshot else ""))
                            return
                        if i % 2 == 0:
                            # print_model(): one "symbol = value" line per declared constant, same values
                            import io, contextlib
                            buf = io.StringIO()
                            with contextlib.redirect_stdout(buf):
                                with_timeout(20, lambda: solver.print_model())
                            printed = dict(l.split(" = ", 1) for l in buf.getvalue().splitlines() if " = " in l)
                            run.cls("op:print_model")
                            for (n, t) in sorted(needed, key=repr):
                                if t[0] in ("Fun", "Sort"):
                                    continue
                                s = pys.build(env, sym(n, t))
                                if printed.get(str(s)) != str(model.get_value(s)):
                                    fail("print-model", i, "print_model() shows %s = %r, get_model() gives %s" % (
                                        s, printed.get(str(s)), model.get_value(s)))
                                    return
                    elif op[0] == "get_value":
                        if sat_state is not True:
                            continue
                        b = op[1]
                        live_syms = set()
                        for a in live + oneshot:
                            live_syms |= reffv(a)
                        if not (reffv(b) <= live_syms) or any(t[0] == "Sort" for (_, t) in reffv(b)):
                            continue            # only terms over (non sort-valued) symbols of the live assertions
                        f = pys.build(env, b)
                        # the value through each of the entry points (a single term, or any iterable of terms)
                        how = (i + len(ops)) % 6
                        if how in (0, 1):
                            v = with_timeout(20, lambda: solver.get_value(f))
                        elif how == 5:
                            pv = with_timeout(20, lambda: solver.get_py_values(x_ for x_ in [f]))
                            v = None
                            if isinstance(pv, dict) and f in pv:
                                ft = env.stc.get_type(f)
                                v = env.formula_manager.Bool(pv[f]) if ft.is_bool_type() else env.formula_manager.BV(pv[f], ft.width)
                        else:
                            fs = {2: [f], 3: (f, f), 4: (x_ for x_ in [f])}[how]
                            vs = with_timeout(20, lambda: solver.get_values(fs))
                            v = vs.get(f) if isinstance(vs, dict) else None
                        run.cls("get_value:entry-%d" % how)
                        if v is None:
                            fail("value", i, "get_values / get_py_values over an iterable holding %s returned no value for it" % show(b))
                            return
                        if len(frames) > 1:
                            nontriv = True
                        logged = logged_model([r for r in read_log(log) if r["cmd"] == "(check-sat)"][-1])
                        want = Evaluator(dict(logged), {"S1": CARD}).eval(b)
                        got = v.constant_value() if v.is_constant() else None
                        if got != want:
                            fail("value", i, "get_value(%s) returned %s, the solver's model gives %r" % (show(b), v, want))
                            return
                except RefUnknown:
                    run.discard("reference-unknown")
                    return
                except Timeout:
                    if budget_overrun_is_a_block([solver.solver.pid]):
                        fail("blocked", i, "%s does not return: the solver process waits for a command while pySMT waits for a reply "
                                           "(reply stream out of sync?)" % op[0])
                    else:
                        run.discard("inconclusive-budget")
                    return
                except Exception as e:
                    lg = read_log(log)
                    if type(e).__name__ == "SolverReturnedUnknownResultError" and lg and lg[-1]["reply"] == "unknown":
                        run.discard("reference-unknown")        # the process said unknown and pySMT relayed it
                        return
                    fail("raised", i, "%s raised %s: %s" % (op[0], type(e).__name__, str(e)[:200]))
                    return
                errs = [r for r in read_log(log) if r["reply"].startswith("(error")]
                if errs:
                    run.fail({"subcheck": "smtlibsolver:illegal-stream", "class": errs[0].get("error_class", "?")}, case,
                             "the reference solver rejected the command stream: %s -> %s\n history=%s" % (
                                 errs[0]["cmd"][:200], errs[0]["reply"][:200], [o[0] + (str(o[1]) if o[0] in ("push", "pop") else "") for o in ops[:i + 1]]))
                    return
            # factory shortcuts on a generic solver
            if shortcut is not None:
                name = "refsolver"
                # the solver declares (and its process accepts) only a few SMT-LIB logics: whatever logic is detected
                # for the formula, the process must be started in one of these
                from pysmt.logics import QF_AUFBV, QF_UFBV as _QF_UFBV, QF_AUFBVLIRA
                from vf.refsem import all_symbols as _alls
                restricted = len(ops) % 2 == 1 and not any("Sort" in repr(t_) for (_, t_) in _alls(shortcut[1]))
                declared = [_QF_UFBV, QF_AUFBVLIRA] if restricted else list(PYSMT_LOGICS)
                extra = ["--logics", ",".join(str(l) for l in declared)] if restricted else []
                if restricted:
                    run.cls("shortcut:solver-declares-few-logics")
                env.factory.add_generic_solver(name, REFSOLVER + extra + ["--card", str(CARD)], declared)
                f = pys.build(env, shortcut[1])
                b = pys.decode(f)
                try:
                    r = with_timeout(30, lambda: getattr(env.factory, shortcut[0])(f, solver_name=name))
                except Timeout:
                    if budget_overrun_is_a_block(_refsolver_children()):
                        fail("blocked", None, "shortcut %s does not return although its solver process is idle" % shortcut[0])
                    else:
                        run.discard("inconclusive-budget")
                    return
                except Exception as e:
                    fail("raised", None, "shortcut %s raised %s: %s" % (shortcut[0], type(e).__name__, str(e)[:200]))
                    return
                run.cls("shortcut:" + shortcut[0])
                if shortcut[0] == "is_sat" and r != brute([b]):
                    fail("shortcut-verdict", None, "is_sat shortcut returned %r" % r)
                elif shortcut[0] == "is_unsat" and r != (not brute([b])):
                    fail("shortcut-verdict", None, "is_unsat shortcut returned %r" % r)
                elif shortcut[0] == "is_valid" and r != (not brute([("NOT", (), (b,))])):
                    fail("shortcut-verdict", None, "is_valid shortcut returned %r" % r)
                elif shortcut[0] == "get_model":
                    if (r is not None) != brute([b]):
                        fail("shortcut-verdict", None, "get_model shortcut returned %r for a %s formula" % (r, "satisfiable" if brute([b]) else "unsatisfiable"))
                    elif r is not None:
                        I = {}
                        ok = True
                        for (n, t) in reffv(pys.decode(f.simplify())):
                            s = pys.build(env, sym(n, t))
                            if s not in r:
                                fail("model-incomplete", None, "get_model shortcut: no value for %s" % n)
                                ok = False
                                break
                            if t[0] == "Sort":
                                v = dict(iter(r))[s]
                                I[n] = int(v.symbol_name().rsplit("_", 1)[1]) if v.is_symbol() else None
                            else:
                                I[n] = r.get_value(s).constant_value()
                        if ok and not Evaluator(I, {"S1": CARD}).eval(pys.decode(f.simplify())):
                            fail("model-does-not-satisfy", None, "get_model shortcut: %r does not satisfy the formula" % I)
    finally:
        try:
            if solver is not None:
                solver.exit()
        except Exception:
            pass
        try:
            import shutil
            shutil.rmtree(tmp, ignore_errors=True)
            for junk in ('"stdout"', "stdout"):
                if os.path.exists(junk) and os.path.getsize(junk) == 0:
                    os.remove(junk)
        except Exception:
            pass
    run.case(key=[(o[0], o[1] if len(o) > 1 else None) for o in ops], nontrivial=nontriv,
             sample={"history": [o[0] + (str(o[1]) if o[0] in ("push", "pop") else "") for o in ops]} if nontriv else None)
    for o in ops:
        run.cls("op:" + o[0])
    if any(o[0] == "assert" and "FUNCTION" in B.ops_of(o[1]) for o in ops):
        run.cls("uninterpreted-functions")
    if nontriv:
        run.cls("nontrivial-history")


def check_broken_solver(run, rnd, mode=None, fbp=None):
    """The process dies, or answers nonsense, at check-sat: the verdict 'returned is the one the solver gave' - there
    is none, so solve() must raise; it must neither invent a verdict nor wait forever for a reply."""
    from pysmt.smtlib.solver import SmtLibSolver
    if mode is None:
        mode = rnd.choice(["exit", "crash", "garbage"])
        fbp = G(cfg=CFG_NOUF, rnd=rnd).term(BOOL, 2)
    env = Environment()
    solver = None
    case = {"ops": [("assert", fbp), ("solve",)], "shortcut": None, "mode": mode}
    run.case(key=("broken", mode, fbp), nontrivial=True)
    run.cls("broken-solver:" + mode)
    try:
        with env:
            solver = SmtLibSolver(REFSOLVER + ["--mode", mode, "--card", str(CARD)], env, QF_UFBV, LOGICS=PYSMT_LOGICS)
            try:
                solver.add_assertion(pys.build(env, fbp))
            except Exception as e:
                # the process works until check-sat: a legal assertion must go through
                run.fail({"subcheck": "smtlibsolver:raised", "op": "assert"}, case,
                         "add_assertion raised %s: %s" % (type(e).__name__, str(e)[:200]))
                return
            try:
                r = with_timeout(10, lambda: solver.solve())
            except Timeout:
                if budget_overrun_is_a_block([solver.solver.pid]):
                    run.fail({"subcheck": "smtlibsolver:blocked", "op": "solve", "mode": mode}, case,
                             "the solver process answers check-sat with '%s' and solve() does not return" % mode)
                else:
                    run.discard("inconclusive-budget")
                return
            except Exception:
                return
            run.fail({"subcheck": "smtlibsolver:verdict-without-answer", "mode": mode}, case,
                     "solve() returned %r although the solver process never answered sat / unsat (%s)" % (r, mode))
    finally:
        try:
            if solver is not None:
                solver.exit()
        except Exception:
            pass
        for junk in ('"stdout"', "stdout"):
            try:
                if os.path.exists(junk) and os.path.getsize(junk) == 0:
                    os.remove(junk)
            except Exception:
                pass


def check_other_environment(run, rnd):
    """A solver of an environment that is not the current one: the values it returns are terms of ITS environment."""
    from pysmt.smtlib.solver import SmtLibSolver
    env2 = Environment()
    mgr = env2.formula_manager
    w = rnd.choice([2, 3])
    k1, k2 = rnd.randrange(1 << w), rnd.randrange(1 << w)
    x, y, p = mgr.Symbol("x", env2.type_manager.BVType(w)), mgr.Symbol("y", env2.type_manager.BVType(w)), mgr.Symbol("p")
    f = mgr.And(mgr.Equals(x, mgr.BV(k1, w)), mgr.Equals(mgr.BVAdd(x, y), mgr.BV(k2, w)), p)
    want_y = (k2 - k1) % (1 << w)
    case = {"ops": [("assert", pys.decode(f)), ("solve",)], "shortcut": None, "other_environment": True}
    run.case(key=("other-env", w, k1, k2), nontrivial=True)
    run.cls("solver-of-another-environment")
    solver = None
    try:
        solver = SmtLibSolver(REFSOLVER + (["--wrap"] if k1 % 2 else []) + ["--card", str(CARD)], env2, QF_UFBV, LOGICS=PYSMT_LOGICS)
        solver.add_assertion(f)
        ok = with_timeout(20, lambda: solver.solve())
        vy = with_timeout(20, lambda: solver.get_value(y))
        vp = with_timeout(20, lambda: solver.get_value(p))
        model = with_timeout(20, lambda: solver.get_model())
        vals = [vy, vp] + [v for (_, v) in model]
        if ok is not True or vy is not mgr.BV(want_y, w) or vp is not mgr.TRUE() or any(v not in mgr for v in vals):
            run.fail({"subcheck": "smtlibsolver:value", "op": "other-environment"}, case,
                     "solver of a non-current environment: solve() = %r, y = %s (expected %d, as a term of that environment: %s), "
                     "p = %s" % (ok, vy, want_y, vy in mgr, vp))
    except Exception as e:
        run.fail({"subcheck": "smtlibsolver:raised", "op": "other-environment"}, case,
                 "solver of a non-current environment raised %s: %s" % (type(e).__name__, str(e)[:200]))
    finally:
        try:
            if solver is not None:
                solver.exit()
        except Exception:
            pass


def shard(shard, seed, n):
    run = Run(PID)

    def body(rnd):
        if rnd.random() < 0.06:
            check_broken_solver(run, rnd)
            return
        if rnd.random() < 0.05:
            check_other_environment(run, rnd)
            return
        ops, shortcut = gen_history(rnd)
        check_history(run, ops, shortcut)
    drive(body, st.randoms(use_true_random=True), n, derive_seed(seed, "c17", shard))
    return run


def main():
    chk = Check(PID, "exploration", RULE, assumptions=[
        "vf/refsolver.py (on vf/smtref.py) is the strict reference: redeclaration, use before declaration (also after "
        "pop and reset-assertions), unbalanced push/pop and ill-sorted terms are answered with (error ...)",
        "verdicts are decided by brute force over the finite domains; only histories legal in SMT-LIB are generated",
        "value queries are made only after sat and only over symbols of the live assertions"])
    thorough = chk.tier == "thorough"
    jobs = [(shard, dict(shard=s, seed=chk.seed, n=1500 if thorough else 90)) for s in range(16)]
    chk.add(run_shards(jobs))
    for c in ("op:push", "op:pop", "op:get_model", "op:print_model", "op:get_value", "op:reset", "op:is_valid", "nontrivial-history",
              "shortcut:is_sat", "shortcut:get_model"):
        chk.floor(c, 30)
    return chk.finish()


def replay(rec):
    run = Run(PID, known=[])
    c = rec["case"]
    if c.get("mode"):
        check_broken_solver(run, None, mode=c["mode"], fbp=c["ops"][0][1])
    else:
        check_history(run, [tuple(o) for o in c["ops"]], tuple(c["shortcut"]) if c.get("shortcut") else None)
    if run.violations:
        print("VIOLATION property=%s replay=(replayed)" % PID)
        print(run.violations[0]["detail"])
        return 1
    print("replay: no violation")
    return 0
