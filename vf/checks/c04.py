"""C04 - hash-consing: one object per structure, faithful accessors, faithful copies."""
import warnings
from fractions import Fraction

from hypothesis import strategies as st, settings, HealthCheck, Phase, Verbosity
import hypothesis
from hypothesis.stateful import RuleBasedStateMachine, rule, run_state_machine_as_test

from pysmt.environment import Environment
import pysmt.operators as pop

from vf import bp as B
from vf.bp import BOOL, INT, REAL, STRING, BV, is_bv, is_arr, is_fun, show, subterms, const
from vf.refsem import reftype, IllTyped, all_symbols
from vf.gen import G, Cfg
from vf.harness import Run, Check, run_shards, derive_seed
from vf import pys

warnings.filterwarnings("ignore")

PID = "C04"
RULE = ("Hypothesis rule-based state machine over three environments (two sources, one target): rules build a "
        "generated blueprint along a generated route (children in random order, constants through random spellings "
        "int/Fraction/float/pair/unreduced pair/'0101'/'#b0101'/SBV, list/varargs/generator, derived constructors), "
        "rebuild an existing structure by another route, and normalize source formulas into the target.  After every "
        "step: same structural key <=> same object against every object created so far; every accessor / is_* "
        "predicate / args identity / array_value_get agrees with the blueprint; copies are structurally identical, "
        "hash-consed in the target and share no node with the source.  non-trivial = a construction reaching an "
        "existing key by another route or spelling, or a cross-environment copy; distinct by key")


def canon_arr(bp):
    """Order-insensitive canonical form of array-value assignments (recursively)."""
    op, params, ch = bp
    ch = tuple(canon_arr(c) for c in ch)
    if op == "ARRAY_VALUE":
        pairs = sorted([(ch[i], ch[i + 1]) for i in range(1, len(ch), 2)], key=repr)
        ch = (ch[0],) + tuple(x for p in pairs for x in p)
    return (op, params, ch)


def norm(bp):
    """The blueprint after the normalisations the constructors document."""
    op, params, ch = bp
    ch = tuple(norm(c) for c in ch)
    if op == "NOT" and ch[0][0] == "NOT":
        return ch[0][2][0]
    if op in ("AND", "OR", "PLUS", "TIMES") and len(ch) == 1:
        return ch[0]
    if op == "TOREAL":
        t = reftype(ch[0])
        if t == REAL:
            return ch[0]
        if ch[0][0] == "CONST":
            return const(REAL, Fraction(ch[0][1][1]))
    if op == "DIV" and ch[1][0] == "CONST" and ch[1][1][0] == REAL and ch[1][1][1] != 0:
        return ("TIMES", (), (ch[0], const(REAL, 1 / ch[1][1][1])))
    if op == "POW" and ch[0][0] == "CONST" and ch[1][0] == "CONST":
        b, e = Fraction(ch[0][1][1]), Fraction(ch[1][1][1])
        if e.denominator == 1 and (b != 0 or e >= 0):     # folded only when the result is an exact rational
            return const(REAL, b ** int(e))
    if op == "ARRAY_VALUE":
        seen = {}
        for i in range(1, len(ch), 2):
            seen[ch[i]] = ch[i + 1]
        pairs = sorted([(k, v) for k, v in seen.items() if v != ch[0]], key=repr)
        ch = (ch[0],) + tuple(x for p in pairs for x in p)
    return (op, params, ch)


PREDICATES = {
    "FORALL": "is_forall", "EXISTS": "is_exists", "AND": "is_and", "OR": "is_or", "NOT": "is_not",
    "IMPLIES": "is_implies", "IFF": "is_iff", "SYMBOL": "is_symbol", "FUNCTION": "is_function_application",
    "PLUS": "is_plus", "MINUS": "is_minus", "TIMES": "is_times", "DIV": "is_div", "LE": "is_le", "LT": "is_lt",
    "EQUALS": "is_equals", "ITE": "is_ite", "TOREAL": "is_toreal", "BV_NOT": "is_bv_not", "BV_AND": "is_bv_and",
    "BV_OR": "is_bv_or", "BV_XOR": "is_bv_xor", "BV_CONCAT": "is_bv_concat", "BV_EXTRACT": "is_bv_extract",
    "BV_ULT": "is_bv_ult", "BV_ULE": "is_bv_ule", "BV_NEG": "is_bv_neg", "BV_ADD": "is_bv_add",
    "BV_SUB": "is_bv_sub", "BV_MUL": "is_bv_mul", "BV_UDIV": "is_bv_udiv", "BV_UREM": "is_bv_urem",
    "BV_LSHL": "is_bv_lshl", "BV_LSHR": "is_bv_lshr", "BV_ROL": "is_bv_rol", "BV_ROR": "is_bv_ror",
    "BV_ZEXT": "is_bv_zext", "BV_SEXT": "is_bv_sext", "BV_SLT": "is_bv_slt", "BV_SLE": "is_bv_sle",
    "BV_COMP": "is_bv_comp", "BV_SDIV": "is_bv_sdiv", "BV_SREM": "is_bv_srem", "BV_ASHR": "is_bv_ashr",
    "ARRAY_SELECT": "is_select", "ARRAY_STORE": "is_store", "ARRAY_VALUE": "is_array_value",
}
ALLPREDS = sorted(set(PREDICATES.values()))

# operator classes, from the documentation of pysmt.operators
CLASSES = {
    "is_bool_op": {"FORALL", "EXISTS", "AND", "OR", "NOT", "IMPLIES", "IFF"},
    "is_quantifier": {"FORALL", "EXISTS"},
    "is_theory_relation": {"EQUALS", "LE", "LT", "BV_ULT", "BV_ULE", "BV_SLT", "BV_SLE", "STR_CONTAINS",
                           "STR_PREFIXOF", "STR_SUFFIXOF"},
    "is_ira_op": {"PLUS", "MINUS", "TIMES", "TOREAL", "DIV", "POW", "BV_TONATURAL"},
    "is_bv_op": {"BV_NOT", "BV_AND", "BV_OR", "BV_XOR", "BV_CONCAT", "BV_EXTRACT", "BV_NEG", "BV_ADD", "BV_SUB",
                 "BV_MUL", "BV_UDIV", "BV_UREM", "BV_LSHL", "BV_LSHR", "BV_ROL", "BV_ROR", "BV_ZEXT", "BV_SEXT",
                 "BV_COMP", "BV_SDIV", "BV_SREM", "BV_ASHR"},
    "is_array_op": {"ARRAY_SELECT", "ARRAY_STORE", "ARRAY_VALUE"},
    "is_str_op": {"STR_LENGTH", "STR_CONCAT", "STR_INDEXOF", "STR_REPLACE", "STR_SUBSTR", "STR_CHARAT",
                  "STR_TO_INT", "INT_TO_STR"},
}
CLASSES["is_theory_op"] = CLASSES["is_ira_op"] | CLASSES["is_bv_op"] | CLASSES["is_array_op"] | CLASSES["is_str_op"]


def value_queries(key):
    """[(method, args, kwargs, expected)] for the value/type-parameterised predicates of a node."""
    op, params, ch = key
    out = []
    isc = op == "CONST"
    ty, v = params if isc else (None, None)
    probes = {BOOL: [True, False], INT: [0, 1, -1, 7], REAL: [Fraction(0), Fraction(1), Fraction(1, 2), 0, 1],
              STRING: ["", "a", "0"]}
    for t, meth in ((BOOL, "is_bool_constant"), (INT, "is_int_constant"), (REAL, "is_real_constant"),
                    (STRING, "is_string_constant")):
        out.append((meth, (), {}, isc and ty == t))
        for q in probes[t] + ([v] if isc and ty == t else []):
            out.append((meth, (q,), {}, isc and ty == t and v == q))
    bvq = [0, 1, 3] + ([v] if isc and is_bv(ty) else [])
    out.append(("is_bv_constant", (), {}, isc and is_bv(ty)))
    for q in bvq:
        out.append(("is_bv_constant", (q,), {}, isc and is_bv(ty) and v == q))
        for w in (1, 4, 8) + ((ty[1],) if isc and is_bv(ty) else ()):
            out.append(("is_bv_constant", (q, w), {}, isc and is_bv(ty) and v == q and ty[1] == w))
            out.append(("is_bv_constant", (), {"width": w}, isc and is_bv(ty) and ty[1] == w))
    out.append(("is_true", (), {}, isc and ty == BOOL and v is True))
    out.append(("is_false", (), {}, isc and ty == BOOL and v is False))
    out.append(("is_zero", (), {}, isc and ty in (INT, REAL) and v == 0))
    out.append(("is_one", (), {}, isc and ty in (INT, REAL) and v == 1))
    return out


class Builder(object):
    """Builds a blueprint in env along a route decided by rnd."""

    def __init__(self, env, rnd, route):
        self.env, self.mgr, self.rnd, self.route = env, env.formula_manager, rnd, route
        self.memo = {}

    def build(self, bp):
        if bp in self.memo:
            return self.memo[bp]
        r = self._b(bp)
        self.memo[bp] = r
        return r

    def children(self, ch):
        idx = list(range(len(ch)))
        if self.route != "plain":
            self.rnd.shuffle(idx)
        out = [None] * len(ch)
        for i in idx:
            out[i] = self.build(ch[i])
        return out

    def constant(self, ty, v):
        m, r = self.mgr, self.rnd
        if self.route == "plain":
            return pys.build_const(self.env, ty, v)
        if ty == REAL:
            k = r.randrange(5)
            if k == 0:
                return m.Real(v)
            if k == 1:
                return m.Real((v.numerator, v.denominator))
            if k == 2:
                f = r.choice([2, 3, -1, 10])
                return m.Real((v.numerator * f, v.denominator * f))
            if k == 3 and v.denominator == 1:
                return m.Real(int(v))
            if k == 4:
                try:
                    fl = float(v)
                    if Fraction(fl) == v:       # a float denotes exactly the rational it stores
                        return m.Real(fl)
                except OverflowError:
                    pass
            return m.Real(Fraction(v.numerator, v.denominator))
        if is_bv(ty):
            w = ty[1]
            k = r.randrange(5)
            if k == 0:
                return m.BV(v, w)
            if k == 1:
                return m.BV(format(v, "0%db" % w))
            if k == 2:
                return m.BV("#b" + format(v, "0%db" % w), w)
            if k == 3:
                return m.SBV(v - (1 << w) if v >> (w - 1) else v, w)
            if v == 0:
                return m.BVZero(w)
            if v == 1:
                return m.BVOne(w)
            return m.BV(v, width=w)
        if ty == BOOL:
            return m.TRUE() if v and r.random() < 0.5 else (m.FALSE() if not v and r.random() < 0.5 else m.Bool(v))
        return pys.build_const(self.env, ty, v)

    def _b(self, bp):
        o, params, ch = bp
        m, r, env = self.mgr, self.rnd, self.env
        if o == "SYMBOL":
            if r.random() < 0.5:
                return m.Symbol(params[0], pys.to_ptype(env, params[1]))
            return m.get_or_create_symbol(params[0], pys.to_ptype(env, params[1]))
        if o == "CONST":
            return self.constant(*params)
        a = self.children(ch)
        if self.route == "plain":
            return pys._build1(env, m, (o, params, ()), {}) if not ch else self._plain(bp, a)
        alt = r.random() < 0.6
        if env.enable_infix_notation and r.random() < 0.3:
            # the infix / method route builds the very same object
            x = self._infix(o, params, a)
            if x is not None:
                return x
        if o in ("AND", "OR", "PLUS", "TIMES"):
            ctor = getattr(m, pys._NARY[o])
            k = r.randrange(3)
            return ctor(*a) if k == 0 else ctor(list(a)) if k == 1 else ctor(x for x in a)
        if alt:
            if o == "LE":
                return m.GE(a[1], a[0])
            if o == "LT":
                return m.GT(a[1], a[0])
            if o == "BV_ULT":
                return m.BVUGT(a[1], a[0])
            if o == "BV_ULE":
                return m.BVUGE(a[1], a[0])
            if o == "BV_SLT":
                return m.BVSGT(a[1], a[0])
            if o == "BV_SLE":
                return m.BVSGE(a[1], a[0])
            if o == "EQUALS":
                return m.EqualsOrIff(a[0], a[1])
            if o == "IFF":
                return m.EqualsOrIff(a[0], a[1])
            if o == "NOT" and ch[0][0] == "IFF":
                return m.Xor(a[0].arg(0), a[0].arg(1)) if a[0].is_iff() else m.Not(a[0])
            if o == "NOT" and ch[0][0] == "EQUALS":
                return m.NotEquals(a[0].arg(0), a[0].arg(1)) if a[0].is_equals() else m.Not(a[0])
            if o in ("BV_AND", "BV_OR", "BV_ADD", "BV_MUL"):
                ctor = getattr(m, pys._FIXED[o])
                # ((x op y) op z) == op(x, y, z)
                if a[0].node_type() == getattr(pop, o) and ch[0][0] == o:
                    return ctor(a[0].arg(0), a[0].arg(1), a[1])
                return ctor([a[0], a[1]])
            if o == "BV_CONCAT" and ch[0][0] == "BV_CONCAT" and a[0].is_bv_concat():
                return m.BVConcat(a[0].arg(0), a[0].arg(1), a[1])
            if o in ("BV_LSHL", "BV_LSHR", "BV_ASHR") and ch[1][0] == "CONST":
                return getattr(m, pys._FIXED[o])(a[0], ch[1][1][1])
            if o == "BV_NOT" and ch[0][0] == "BV_AND" and a[0].is_bv_and():
                return m.BVNand(a[0].arg(0), a[0].arg(1))
            if o == "BV_NOT" and ch[0][0] == "BV_OR" and a[0].is_bv_or():
                return m.BVNor(a[0].arg(0), a[0].arg(1))
            if o == "ITE" and ch[0][0] == "LE" and a[0].is_le() and a[0].arg(0) is a[1] and a[0].arg(1) is a[2]:
                return m.Min(a[1], a[2])
        return self._plain(bp, a)

    def _infix(self, o, params, a):
        r = self.rnd
        two = len(a) == 2
        if o == "LE" and two:
            return (a[0] <= a[1]) if r.random() < 0.5 else (a[1] >= a[0])
        if o == "LT" and two:
            return (a[0] < a[1]) if r.random() < 0.5 else (a[1] > a[0])
        if o in ("BV_ULE", "BV_ULT") and two:
            if o == "BV_ULE":
                return r.choice([lambda: a[0] <= a[1], lambda: a[1] >= a[0], lambda: a[0].BVULE(a[1]), lambda: a[1].BVUGE(a[0])])()
            return r.choice([lambda: a[0] < a[1], lambda: a[1] > a[0], lambda: a[0].BVULT(a[1]), lambda: a[1].BVUGT(a[0])])()
        if o in ("BV_SLE", "BV_SLT") and two:
            if o == "BV_SLE":
                return a[0].BVSLE(a[1]) if r.random() < 0.5 else a[1].BVSGE(a[0])
            return a[0].BVSLT(a[1]) if r.random() < 0.5 else a[1].BVSGT(a[0])
        table = {"PLUS": lambda: a[0] + a[1], "MINUS": lambda: a[0] - a[1], "TIMES": lambda: a[0] * a[1],
                 "AND": lambda: r.choice([lambda: a[0] & a[1], lambda: a[0].And(a[1])])(),
                 "OR": lambda: r.choice([lambda: a[0] | a[1], lambda: a[0].Or(a[1])])(),
                 "IMPLIES": lambda: a[0].Implies(a[1]), "IFF": lambda: a[0].Iff(a[1]), "EQUALS": lambda: a[0].Equals(a[1]),
                 "BV_AND": lambda: r.choice([lambda: a[0] & a[1], lambda: a[0].BVAnd(a[1])])(),
                 "BV_OR": lambda: r.choice([lambda: a[0] | a[1], lambda: a[0].BVOr(a[1])])(),
                 "BV_XOR": lambda: r.choice([lambda: a[0] ^ a[1], lambda: a[0].BVXor(a[1])])(),
                 "BV_ADD": lambda: r.choice([lambda: a[0] + a[1], lambda: a[0].BVAdd(a[1])])(),
                 "BV_SUB": lambda: r.choice([lambda: a[0] - a[1], lambda: a[0].BVSub(a[1])])(),
                 "BV_MUL": lambda: r.choice([lambda: a[0] * a[1], lambda: a[0].BVMul(a[1])])(),
                 "BV_UDIV": lambda: a[0].BVUDiv(a[1]), "BV_UREM": lambda: a[0].BVURem(a[1]),
                 "BV_SDIV": lambda: a[0].BVSDiv(a[1]), "BV_SREM": lambda: a[0].BVSRem(a[1]),
                 "BV_LSHL": lambda: a[0].BVLShl(a[1]), "BV_LSHR": lambda: a[0].BVLShr(a[1]), "BV_ASHR": lambda: a[0].BVAShr(a[1]),
                 "BV_CONCAT": lambda: a[0].BVConcat(a[1]), "BV_COMP": lambda: a[0].BVComp(a[1]),
                 "ARRAY_SELECT": lambda: a[0].Select(a[1])}
        if o in table and two:
            return table[o]()
        if o == "NOT":
            return ~a[0]
        if o == "BV_NOT":
            return ~a[0]
        if o == "BV_NEG":
            return -a[0]
        if o == "ITE":
            return a[0].Ite(a[1], a[2])
        if o == "ARRAY_STORE":
            return a[0].Store(a[1], a[2])
        if o == "BV_EXTRACT":
            return r.choice([lambda: a[0].BVExtract(params[0], params[1]), lambda: a[0][params[0]:params[1]]])()
        if o == "BV_ZEXT":
            return a[0].BVZExt(params[0])
        if o == "BV_SEXT":
            return a[0].BVSExt(params[0])
        if o == "BV_ROL":
            return a[0].BVRol(params[0])
        if o == "BV_ROR":
            return a[0].BVRor(params[0])
        return None

    def _plain(self, bp, a):
        o, params, ch = bp
        m, env = self.mgr, self.env
        if o == "FUNCTION":
            return m.Function(m.Symbol(params[0], pys.to_ptype(env, params[1])), a)
        if o in ("FORALL", "EXISTS"):
            vs = [m.Symbol(n, pys.to_ptype(env, t)) for (n, t) in params]
            q = m.ForAll if o == "FORALL" else m.Exists
            if self.route != "plain":
                # the variables as any iterable; no variables at all (in any spelling) gives the body back
                k = self.rnd.randrange(4)
                empty = [[], (), iter([]), (v for v in vs if False)][k]
                if q(empty, a[0]) is not a[0]:
                    raise AssertionError("quantifier without variables is not its body")
                vs = [vs, tuple(vs), iter(vs), (v for v in vs)][k]
            return q(vs, a[0])
        if o == "ARRAY_VALUE":
            items = [(a[i], a[i + 1]) for i in range(1, len(a), 2)]
            if self.route != "plain":
                self.rnd.shuffle(items)
            return m.Array(pys.to_ptype(env, params[0]), a[0], dict(items))
        if o == "BV_EXTRACT":
            return m.BVExtract(a[0], params[0], params[1])
        if o in pys._PARAM1:
            return getattr(m, pys._PARAM1[o])(a[0], params[0])
        if o in pys._NARY:
            return getattr(m, pys._NARY[o])(a)
        return getattr(m, pys._FIXED[o])(*a)


CFG = Cfg(max_depth=3, pow=True, quant_unbounded=True, nsyms=2, bv_widths=[1, 2, 4, 8, 33],
          sorts=["S1", "S2", "L{S1}", "L{L{S1}}", "P{S2, Int}", "P{L{S2}, Bool}"],
          ints=[0, 1, -1, 2, 7, 2 ** 70], reals=[Fraction(0), Fraction(1), Fraction(1, 2), Fraction(-3, 4), Fraction(5),
                                                  Fraction(1, 3), Fraction(2 ** 70, 3), Fraction(0.1), Fraction(1e-9), Fraction(-2.7)],
          strings=["", "a", "ab", "0"], share=35)


class Machine(RuleBasedStateMachine):
    run = None

    def __init__(self):
        super().__init__()
        self.envs = [Environment(), Environment(), Environment()]   # sources 0,1 ; target 2
        for e_ in self.envs:
            e_.enable_infix_notation = True
        self.model = [dict(), dict(), dict()]      # key -> object
        self.rev = [dict(), dict(), dict()]        # id(object) -> key
        self.keep = []
        self.steps = 0

    # ---- helpers
    def fail(self, kind, case, detail, **sig):
        self.run.fail(dict({"subcheck": "hashcons:" + kind}, **sig), case, detail)

    def register(self, e, key, obj, how):
        """same key <=> same object, against everything created so far in env e."""
        model, rev = self.model[e], self.rev[e]
        self.keep.append(obj)
        if key in model:
            if model[key] is not obj:
                self.fail("two-objects-one-structure", {"key": key, "route": how},
                          "structure %s built twice (%s) gave two different objects" % (show(key), how))
            else:
                self.run.cls("reached-existing-key")
                self.run.case(key=("reuse", key), nontrivial=True)
        else:
            model[key] = obj
        k2 = rev.get(id(obj))
        if k2 is not None and k2 != key:
            self.fail("one-object-two-structures", {"key": key, "other": k2, "route": how},
                      "structures %s and %s are the same object (%s)" % (show(key), show(k2), how))
        rev[id(obj)] = key

    def check_node(self, e, key, obj):
        env = self.envs[e]
        mgr = env.formula_manager
        op, params, ch = key
        case = {"key": key}
        with env:
            try:
                dec = canon_arr(pys.decode(obj))
            except Exception as ex:
                self.fail("decode-raised", case, "%s: %s on %s" % (type(ex).__name__, ex, show(key)))
                return
            if dec != key:
                self.fail("accessors-disagree", case, "built %s, accessors report %s" % (show(key), show(dec)))
                return
            if obj not in mgr:
                self.fail("not-in-manager", case, "%s not in its manager" % show(key))
            # args are the objects of the children
            for c, o in zip(pys.decode(obj)[2], obj.args()):
                ck = canon_arr(c)
                if ck in self.model[e] and self.model[e][ck] is not o:
                    self.fail("arg-not-shared", case, "argument %s of %s is not the hash-consed object" % (show(ck), show(key)))
            # predicates
            want = PREDICATES.get(op)
            for p in ALLPREDS:
                if getattr(obj, p)() != (p == want):
                    self.fail("predicate", case, "%s() is %r on %s" % (p, getattr(obj, p)(), show(key)))
            for p, ops in CLASSES.items():
                if getattr(obj, p)() != (op in ops):
                    self.fail("predicate", case, "%s() is %r on %s" % (p, getattr(obj, p)(), show(key)))
            lit = (op == "SYMBOL" and params[1] == BOOL) or (op == "NOT" and ch[0][0] == "SYMBOL" and ch[0][1][1] == BOOL)
            if obj.is_literal() != lit:
                self.fail("predicate", case, "is_literal() is %r on %s" % (obj.is_literal(), show(key)))
            if obj.is_term() != (not (op == "SYMBOL" and is_fun(params[1]))):
                self.fail("predicate", case, "is_term() is %r on %s" % (obj.is_term(), show(key)))
            if op == "SYMBOL":
                for qt in (BOOL, INT, BV(4), params[1]):
                    if not is_fun(qt) and obj.is_symbol(pys.to_ptype(env, qt)) != (qt == params[1]):
                        self.fail("predicate", case, "is_symbol(%r) wrong on %s" % (qt, show(key)))
            if op != "ARRAY_VALUE":      # typed queries on array values raise by documented design
                for meth, a, kw, want in value_queries(key):
                    try:
                        got = getattr(obj, meth)(*a, **kw)
                    except Exception as ex:
                        got = "raised %s" % type(ex).__name__
                    if got != want:
                        self.fail("predicate", case, "%s(%s%s) is %r on %s" % (
                            meth, ", ".join(map(repr, a)), "".join(", %s=%r" % kv for kv in kw.items()), got, show(key)),
                            pred=meth, node=op if op != "CONST" else "CONST:" + B.tystr(params[0]).rstrip("0123456789"))
            if op == "CONST" and is_bv(params[0]):
                w, v = params[0][1], params[1]
                if obj.bv_str() != format(v, "0%db" % w) or obj.bv_bin_str() != format(v, "0%db" % w) \
                        or obj.bv_bin_str(reverse=True) != format(v, "0%db" % w)[::-1] or obj.bv_str("d") != str(v) \
                        or int(obj.bv_str("x"), 16) != v or obj.bv2nat() != v:
                    self.fail("constant-accessors", case, "bv_str / bv_bin_str / bv2nat wrong on %s" % show(key))
            if op == "CONST":
                ty, v = params
                if not obj.is_constant() or obj.constant_value() != v or pys.from_ptype(obj.constant_type()) != ty:
                    self.fail("constant-accessors", case, "constant %s reports %r : %r" % (show(key), obj.constant_value(), obj.constant_type()))
                if not obj.is_constant(pys.to_ptype(env, ty), v):
                    self.fail("constant-accessors", case, "is_constant(type, value) false on %s" % show(key))
                if is_bv(ty) and (obj.bv_unsigned_value() != v or obj.bv_signed_value() != (v - (1 << ty[1]) if v >> (ty[1] - 1) else v)
                                  or obj.bv_width() != ty[1]):
                    self.fail("constant-accessors", case, "bv value accessors wrong on %s" % show(key))
            else:
                if obj.is_constant() and op != "ARRAY_VALUE":
                    self.fail("predicate", case, "is_constant() true on %s" % show(key))
            try:
                t = reftype(key)
            except IllTyped:
                t = None
            if t is not None and not is_fun(t):
                if pys.from_ptype(obj.get_type()) != t:
                    self.fail("get_type", case, "get_type() = %s on %s : %r" % (obj.get_type(), show(key), t))
                if is_bv(t) and obj.bv_width() != t[1]:
                    self.fail("bv_width", case, "bv_width() = %r on %s" % (obj.bv_width(), show(key)))
            if op == "ARRAY_VALUE":
                d = obj.array_value_default()
                amap = obj.array_value_assigned_values_map()
                if canon_arr(pys.decode(d)) != ch[0] or len(amap) != (len(ch) - 1) // 2:
                    self.fail("array-accessors", case, "default / map wrong on %s" % show(key))
                for k, v in amap.items():
                    if obj.array_value_get(k) is not v:
                        self.fail("array_value_get", case, "array_value_get(%s) is %s, assigned %s, in %s" % (k, obj.array_value_get(k), v, show(key)))
                if pys.from_ptype(obj.array_value_index_type()) in (INT,):
                    other = mgr.Int(123456789)
                    if other not in amap and obj.array_value_get(other) is not d:
                        self.fail("array_value_get", case, "unassigned index does not give the default in %s" % show(key))

    def add_formula(self, e, bp, rnd, route):
        env = self.envs[e]
        with env:
            try:
                key = norm(bp)
                reftype(key)
            except (IllTyped, ZeroDivisionError):
                self.run.discard("illtyped-blueprint")
                return None
            try:
                obj = Builder(env, rnd, route).build(bp)
            except AssertionError as ex:
                if "quantifier without variables" in str(ex):
                    self.fail("empty-binder", {"bp": bp, "route": route}, "a quantifier over an empty iterable of variables is not its body (%s)" % show(bp, 200))
                    return None
                self.run.discard("rejected-by-constructor")
                return None
            except Exception as ex:
                self.run.discard("rejected-by-constructor")
                return None
        # register every sub-structure that we can pair with an object
        memo = {}
        with env:
            pys.decode(obj, memo)
        self.run.case(key=key, nontrivial=False, sample=None)
        for node, nb in memo.items():
            nk = canon_arr(nb)
            self.register(e, nk, node, route)
        if canon_arr(pys.decode(obj, memo)) != key:
            self.fail("accessors-disagree", {"bp": bp, "route": route},
                      "built %s (normal form %s) but accessors report %s" % (show(bp), show(key), show(pys.decode(obj))))
            return None
        for node, nb in list(memo.items())[-6:]:
            self.check_node(e, canon_arr(nb), node)
        return key

    # ---- rules
    @rule(rnd=st.randoms(use_true_random=True), e=st.integers(0, 2), route=st.sampled_from(["plain", "mixed", "mixed"]))
    def build(self, rnd, e, route):
        g = G(cfg=CFG, rnd=rnd)
        bp = g.term(g.ty())
        self.add_formula(e, bp, rnd, route)
        self.run.cls("rule:build")

    @rule(rnd=st.randoms(use_true_random=True), e=st.integers(0, 2))
    def rebuild_existing(self, rnd, e):
        if not self.model[e]:
            return
        keys = list(self.model[e].keys())
        key = keys[rnd.randrange(len(keys))]
        self.add_formula(e, key, rnd, "mixed")
        self.run.cls("rule:rebuild")

    @rule(rnd=st.randoms(use_true_random=True), e=st.integers(0, 2), other=st.integers(0, 2))
    def rebuild_inside_nested_blocks(self, rnd, e, other):
        """`with env:` blocks nest in any order (an environment may be entered again while it is lower on the stack):
        after an inner block is left, the routes that go through the current environment (infix operators, shortcuts)
        build in the environment of the enclosing block."""
        if not self.model[e] or other == e:
            return
        from pysmt.environment import get_env
        import pysmt.shortcuts as sc
        keys = list(self.model[e].keys())
        key = keys[rnd.randrange(len(keys))]
        env, oth = self.envs[e], self.envs[other]
        before = get_env()
        with oth:
            with env:
                with oth:
                    inner = get_env()
                cur = get_env()
                if cur is env:
                    syms = [k for k in keys if k[0] == "SYMBOL" and not is_fun(k[1][1])][:3]
                    for k in syms:
                        o = sc.Symbol(k[1][0], pys.to_ptype(env, k[1][1]))
                        if o is not self.model[e][k]:
                            self.fail("two-objects-one-structure", {"key": k, "route": "shortcut in nested blocks"},
                                      "Symbol(%r) through the shortcut inside nested with-blocks is not the environment's symbol" % (k[1][0],))
            back = get_env()
        self.run.cls("rule:nested-blocks")
        self.run.case(key=("nested", e, other, key), nontrivial=True)
        if inner is not oth or cur is not env or back is not oth or get_env() is not before:
            self.fail("current-environment", {"env": e, "other": other},
                      "with B: with A: with B: pass -> current environment inside / after the inner block / after A's block / at the end: "
                      "%s / %s / %s / %s" % (inner is oth, cur is env, back is oth, get_env() is before))
            return
        with oth:
            with env:
                with oth:
                    pass
                self.add_formula(e, key, rnd, "mixed")

    @rule(rnd=st.randoms(use_true_random=True), e=st.integers(0, 2))
    def pow_of_constants(self, rnd, e):
        """Pow over two constants: folded exactly when the exponent is an integer (and 0 is not raised to a negative
        power), a node with these two arguments otherwise."""
        if rnd.random() < 0.5:
            base = const(REAL, rnd.choice([Fraction(0), Fraction(1), Fraction(4), Fraction(2), Fraction(-8), Fraction(9, 4), Fraction(1, 3)]))
            ex = const(REAL, rnd.choice([Fraction(1, 2), Fraction(3, 2), Fraction(-1, 2), Fraction(5, 2), Fraction(1, 3), Fraction(2),
                                         Fraction(0), Fraction(-1), Fraction(-2), Fraction(3)]))
        else:
            base = const(INT, rnd.choice([0, 1, 2, -3, 7]))
            ex = const(INT, rnd.choice([0, 1, 2, 3, -1, -2]))
        self.add_formula(e, ("POW", (), (base, ex)), rnd, rnd.choice(["plain", "mixed"]))
        self.run.cls("rule:pow-of-constants")
        if ex[1][1] != int(ex[1][1]):
            self.run.cls("pow:fractional-exponent")

    @rule(rnd=st.randoms(use_true_random=True), e=st.integers(0, 2))
    def derived(self, rnd, e):
        """A derived constructor applied to formulas that exist already is the very object of its documented expansion."""
        name = sorted(DERIVED)[rnd.randrange(len(DERIVED))]
        kind, n, build, expand = DERIVED[name]
        by_type = {}
        for key in self.model[e]:
            try:
                t = reftype(key)
            except IllTyped:
                continue
            if not is_fun(t):
                by_type.setdefault(t, []).append(key)
        ok = lambda t: (kind == "any" or (kind == "bv" and isinstance(t, tuple) and t[0] == "BV")
                        or (kind == "num" and t in (INT, REAL)) or (kind == "bool" and t == BOOL)
                        or (kind == "nonbool" and t != BOOL))
        types = sorted((t for t in by_type if ok(t)), key=repr)
        if not types:
            return
        t = types[rnd.randrange(len(types))]
        pool = by_type[t]
        keys = [pool[rnd.randrange(len(pool))] for _ in range(n)]
        if name.startswith("AllDifferent") and len(set(keys)) < len(keys):
            return   # x != x is built as it stands, but nothing is documented about repeated operands
        env = self.envs[e]
        case = {"constructor": name, "operands": keys}
        with env:
            try:
                obj = build(env.formula_manager, [self.model[e][k] for k in keys])
            except Exception as ex:
                self.run.discard("derived-rejected:%s" % type(ex).__name__)
                return
            want = norm(expand(keys))
            memo = {}
            got = canon_arr(pys.decode(obj, memo))
        self.run.cls("rule:derived")
        self.run.cls("derived:" + name.split(":")[0].split("-")[0])
        self.run.case(key=("derived", name, tuple(keys)), nontrivial=True)
        if got != canon_arr(want):
            self.fail("derived-constructor", case, "%s over %s is %s, documented as %s" % (
                name, [show(k, 60) for k in keys], show(got, 200), show(want, 200)), constructor=name.split(":")[0])
            return
        for node, nb in memo.items():
            self.register(e, canon_arr(nb), node, "derived:" + name)

    @rule(rnd=st.randoms(use_true_random=True), src=st.integers(0, 1))
    def normalize(self, rnd, src):
        if not self.model[src]:
            return
        keys = list(self.model[src].keys())
        key = keys[rnd.randrange(len(keys))]
        f = self.model[src][key]
        tgt = self.envs[2]
        case = {"key": key, "source_env": src}
        try:
            if is_fun(reftype(key)):
                return
        except IllTyped:
            return
        with tgt:
            try:
                g = tgt.formula_manager.normalize(f)
            except Exception as ex:
                self.fail("normalize-raised", case, "%s: %s on %s" % (type(ex).__name__, ex, show(key)))
                return
            memo = {}
            dec = canon_arr(pys.decode(g, memo))
        self.run.cls("rule:normalize")
        self.run.case(key=("copy", key), nontrivial=True,
                      sample={"copied": show(key, 160)} if B.size(key) > 4 else None)
        if dec != key:
            self.fail("copy-differs", case, "copy of %s from env %d is %s" % (show(key), src, show(dec)))
            return
        srcmemo = {}
        with self.envs[src]:
            pys.decode(f, srcmemo)
        srcids = {id(n) for n in srcmemo}
        for n in srcmemo:
            if n.is_function_application():
                srcids.add(id(n.function_name()))
            if n.is_quantifier():
                srcids.update(id(v) for v in n.quantifier_vars())
        for n in memo:
            shared = [n] + ([n.function_name()] if n.is_function_application() else []) + \
                     (list(n.quantifier_vars()) if n.is_quantifier() else [])
            for x in shared:
                if id(x) in srcids:
                    self.fail("copy-shares-node", case, "copy of %s shares node %s with the source environment" % (show(key), x))
                if x not in tgt.formula_manager:
                    self.fail("copy-not-in-target", case, "node %s of the copy of %s is not in the target manager" % (x, show(key)))
        for node, nb in memo.items():
            self.register(2, canon_arr(nb), node, "normalize")
        # an environment in which one of the formula's names already has ANOTHER sort: there is no structurally
        # identical copy, the attempt must be refused (never a copy over differently typed symbols)
        syms = sorted(((n_, t_) for (n_, t_) in all_symbols(key) if not is_fun(t_)), key=repr)
        if syms and rnd.random() < 0.3:
            n_, t_ = syms[rnd.randrange(len(syms))]
            other = REAL if t_ == INT else INT if t_ == REAL else INT
            if other != t_:
                envx = Environment()
                with envx:
                    envx.formula_manager.Symbol(n_, pys.to_ptype(envx, other))
                    try:
                        gx = envx.formula_manager.normalize(f)
                    except Exception:
                        self.run.cls("copy-refused:name-has-another-sort")
                    else:
                        self.fail("copy-over-conflicting-symbol", case,
                                  "copy of %s into an environment where %r has sort %s: returned %s" % (show(key), n_, other, gx))
        with tgt:
            if tgt.formula_manager.normalize(f) is not g:
                self.fail("copy-not-stable", case, "normalizing %s twice gives two objects" % show(key))


def _fold(op, items):
    acc = items[0]
    for x in items[1:]:
        acc = (op, (), (acc, x))
    return acc


def _eq_or_iff(a, b):
    return ("IFF" if reftype(a) == BOOL else "EQUALS", (), (a, b))


def _not(a):
    return ("NOT", (), (a,))


def derived_table():
    """name -> (operand kinds, number of operands, builder on the manager, documented expansion on blueprints).
    Expansions are the ones the docstrings of pysmt/formula.py give."""
    T = {}
    for n in range(1, 7):
        T["BVRepeat:%d" % n] = ("bv", 1, lambda m, a, n=n: m.BVRepeat(a[0], n), lambda k, n=n: _fold("BV_CONCAT", [k[0]] * n))
        T["BVRepeat-method:%d" % n] = ("bv", 1, lambda m, a, n=n: a[0].BVRepeat(n), lambda k, n=n: _fold("BV_CONCAT", [k[0]] * n))
    T["BVNand"] = ("bv", 2, lambda m, a: m.BVNand(*a), lambda k: ("BV_NOT", (), (("BV_AND", (), tuple(k)),)))
    T["BVNor"] = ("bv", 2, lambda m, a: m.BVNor(*a), lambda k: ("BV_NOT", (), (("BV_OR", (), tuple(k)),)))
    T["BVXnor"] = ("bv", 2, lambda m, a: m.BVXnor(*a), lambda k: ("BV_NOT", (), (("BV_XOR", (), tuple(k)),)))
    for nm, o in (("BVUGT", "BV_ULT"), ("BVUGE", "BV_ULE"), ("BVSGT", "BV_SLT"), ("BVSGE", "BV_SLE")):
        T[nm] = ("bv", 2, lambda m, a, nm=nm: getattr(m, nm)(*a), lambda k, o=o: (o, (), (k[1], k[0])))
    for nm, o in (("GT", "LT"), ("GE", "LE")):
        T[nm] = ("num", 2, lambda m, a, nm=nm: getattr(m, nm)(*a), lambda k, o=o: (o, (), (k[1], k[0])))
    T["Xor"] = ("bool", 2, lambda m, a: m.Xor(*a), lambda k: _not(("IFF", (), tuple(k))))
    T["NotEquals"] = ("nonbool", 2, lambda m, a: m.NotEquals(*a), lambda k: _not(("EQUALS", (), tuple(k))))
    for n in (2, 3, 4):
        T["AllDifferent:%d" % n] = ("any", n, lambda m, a: m.AllDifferent(a), lambda k: (
            "AND", (), tuple(_not(_eq_or_iff(k[i], k[j])) for i in range(len(k)) for j in range(i + 1, len(k)))))
        amo = lambda k: ("AND", (), tuple(("IMPLIES", (), (k[i], _not(("OR", (), tuple(k[i + 1:]))))) for i in range(len(k) - 1)))
        T["AtMostOne:%d" % n] = ("bool", n, lambda m, a: m.AtMostOne(*a), amo)
        T["ExactlyOne:%d" % n] = ("bool", n, lambda m, a: m.ExactlyOne(a), lambda k, amo=amo: ("AND", (), (("OR", (), tuple(k)), amo(k))))
    T["Min"] = ("num", 2, lambda m, a: m.Min(*a), lambda k: ("ITE", (), (("LE", (), (k[0], k[1])), k[0], k[1])))
    T["Max"] = ("num", 2, lambda m, a: m.Max(*a), lambda k: ("ITE", (), (("LE", (), (k[0], k[1])), k[1], k[0])))
    return T


DERIVED = derived_table()


def shard(shard, seed, n, steps, shrink=False):
    run = Run(PID)

    class M(Machine):
        pass
    M.run = run
    M = hypothesis.seed(derive_seed(seed, "c04", shard))(M)
    run_state_machine_as_test(M, settings=settings(
        max_examples=n, stateful_step_count=steps, database=None, deadline=None, derandomize=False,
        suppress_health_check=list(HealthCheck), phases=[Phase.generate], report_multiple_bugs=False,
        verbosity=Verbosity.quiet))
    return run


def main():
    chk = Check(PID, "exploration", RULE, assumptions=[
        "structural key = blueprint after the documented constructor normalisations (vf/checks/c04.py norm)",
        "decode uses only public accessors; their faithfulness is itself checked here against the generated blueprint"])
    thorough = chk.tier == "thorough"
    jobs = [(shard, dict(shard=s, seed=chk.seed, n=1500 if thorough else 150, steps=40 if thorough else 30)) for s in range(16)]
    chk.add(run_shards(jobs))
    chk.floor("reached-existing-key", 2000)
    chk.floor("rule:normalize", 300)
    chk.floor("rule:rebuild", 300)
    chk.floor("rule:derived", 300)
    chk.floor("rule:nested-blocks", 200)
    chk.floor("pow:fractional-exponent", 50)
    chk.floor("derived:BVRepeat", 20)
    return chk.finish()


def replay(rec):
    import random
    run = Run(PID, known=[])

    class M(Machine):
        pass
    M.run = run
    m = M()
    c = rec["case"]
    key = c.get("key") or c.get("bp")
    rnd = random.Random(0)
    for _ in range(20):
        m.add_formula(0, key, rnd, "mixed")
        if "other" in c:
            m.add_formula(0, c["other"], rnd, "mixed")
    m.add_formula(1, key, rnd, "plain")
    for _ in range(5):
        m.normalize(rnd, 0)
        m.normalize(rnd, 1)
    if run.violations:
        print("VIOLATION property=%s replay=(replayed)" % PID)
        print(run.violations[0]["detail"])
        return 1
    print("replay: no violation")
    return 0
