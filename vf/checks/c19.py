"""C19 - portfolio answer is independent of the race and never blocks forever."""
import itertools
import json
import multiprocessing
import os
import tempfile
import threading
import time
import warnings

from hypothesis import strategies as st

from pysmt.environment import Environment
from pysmt.logics import QF_UFBV, PYSMT_LOGICS

from vf import bp as B
from vf.bp import BOOL, BV, sym, show
from vf.refsem import Evaluator, reffv
from vf.gen import G, Cfg
from vf.harness import Run, Check, run_shards, drive, derive_seed, ROOT
from vf import pys
from vf.checks.c17 import REFSOLVER, brute, CARD, read_log

warnings.filterwarnings("ignore")

PID = "C19"
RULE = ("portfolios of 2-4 generic SMT-LIB members, each a reference solver process with its own delay (0/5/20/100/300 ms; "
        "equal delays are near-ties) and mode (ok, unknown, crash, exit, garbage, fail-on-assert, die-at-start), a "
        "finite-domain formula (sat or unsat), and a cycle solve / get_model / get_value / push - add_assertion - solve - "
        "pop - solve, with exit_on_exception on and off.  If at least one member is ok the verdict must be the brute-force "
        "truth and the model / value must satisfy the assertions; if every member fails the call must raise.  'Blocks "
        "forever' is decided by a deadlock predicate (no member process alive, call not returned after a grace period), "
        "never by a timeout: a call that exceeds its budget while members are alive is inconclusive.  non-trivial = >=2 "
        "members with different modes or a near-tie; distinct by (members, formula, cycle)")

DELAYS = [0, 5, 20, 100, 300]
MODES = ["ok", "ok", "ok", "unknown", "crash", "exit", "garbage", "fail-on-assert", "die-at-start"]
CFG = Cfg(max_depth=3, theories={"bool", "bv"}, bv_widths=[1, 2, 3], nsyms=2, share=25)


SOLVER_TAG = [None]        # the scratch directory of the case under test: it is on every solver process' command line


DIE = "die!"


def solver_processes_alive():
    """Number of reference-solver processes of the current case (found by their --log path in /proc)."""
    tag = SOLVER_TAG[0]
    if not tag:
        return 1
    n = 0
    me = os.getpid()
    for pid in os.listdir("/proc"):
        if not pid.isdigit() or int(pid) == me:
            continue
        try:
            with open("/proc/%s/cmdline" % pid, "rb") as fh:
                cl = fh.read()
            if tag.encode() in cl:
                with open("/proc/%s/stat" % pid) as fh:
                    if fh.read().rsplit(")", 1)[1].split()[0] != "Z":
                        n += 1
        except OSError:
            continue
    return n


def call_with_deadlock_watch(fn, budget=25.0, grace=1.5):
    """Run fn() in a thread.  -> ('ok', value) | ('raised', exc) | ('deadlock',) | ('inconclusive',)
    Deadlock = the call has not returned although nothing is left that could ever answer: no member process is
    alive, or (members may be alive but waiting) no solver process of any member is alive, for a grace period."""
    box = {}

    def target():
        try:
            box["v"] = fn()
        except BaseException as e:      # noqa
            box["e"] = e
    th = threading.Thread(target=target, daemon=True)
    th.start()
    t0 = time.time()
    dead_since = None
    while True:
        th.join(0.05)
        if not th.is_alive():
            break
        alive = multiprocessing.active_children()
        nsolv = solver_processes_alive() if alive else 0
        if nsolv:
            box["seen"] = True
        # (solver processes that have not been started yet are not 'gone': they must have been seen, or 10 s passed)
        if not alive or (nsolv == 0 and (box.get("seen") or time.time() - t0 > 10.0)):
            dead_since = dead_since or time.time()
            if time.time() - dead_since > grace:
                return ("deadlock",)
        else:
            dead_since = None
        if time.time() - t0 > budget:
            return ("inconclusive",)
    if "e" in box:
        return ("raised", box["e"])
    return ("ok", box.get("v"))


def check_case(run, members, fbp, extra_bp, exit_on_exception):
    from pysmt.solvers.portfolio import Portfolio
    env = Environment()
    tmp = tempfile.mkdtemp(prefix="c19_")
    SOLVER_TAG[0] = tmp
    case = {"members": members, "formula": fbp, "extra": extra_bp, "exit_on_exception": exit_on_exception}
    oks = [m for m in members if m[1] == "ok"]
    modes = {m[1] for m in members}
    near_tie = len({m[0] for m in oks}) < len(oks)
    port = None
    tagged = {}
    try:
        with env:
            names = []
            for i, (delay, mode) in enumerate(members):
                name = "ref%d" % i
                args = REFSOLVER + ["--delay", str(delay), "--mode", mode, "--card", str(CARD), "--die-on", DIE,
                                    "--log", os.path.join(tmp, "log%d.jsonl" % i)]
                env.factory.add_generic_solver(name, args, list(PYSMT_LOGICS))
                names.append(name)
            f = pys.build(env, fbp)
            b = pys.decode(f)
            e2 = pys.build(env, extra_bp)
            b2 = pys.decode(e2)
            opts = {"solver_options": {"exit_on_exception": True}} if exit_on_exception else {}
            # per-member options (every other member) and, sometimes, the same solver listed twice
            spec = list(names)
            h = (sum(d for (d, _) in members) * 7 + len(members) * 3 + len(repr(fbp))) % 10
            if not exit_on_exception and h <= 2:
                for i in range(0, len(names), 2):
                    spec[i] = (names[i], {"solver_options": {":vf-member": i}})
                    tagged[i] = i
                run.cls("per-member-options")
            elif not exit_on_exception and h <= 6 and all(m == members[0] for m in members):
                spec = [(names[0], {"solver_options": {":vf-member": k}}) for k in range(len(names))]
                run.cls("same-solver-listed-twice")
            port = Portfolio(spec, environment=env, logic=QF_UFBV, incremental=True, generate_models=True, **opts)
            port.add_assertion(f)
            steps = [("solve", [b])]
            live = [b]

            def judge_solve(live_now, label):
                out = call_with_deadlock_watch(lambda: port.solve())
                truth = brute(live_now)
                if out[0] == "deadlock":
                    run.fail({"subcheck": "portfolio:blocks-forever", "all_fail": not oks}, case,
                             "%s: every member process has exited but solve() does not return (members %r)" % (label, members))
                    return None
                if out[0] == "inconclusive":
                    run.discard("inconclusive-budget")
                    return None
                if out[0] == "raised":
                    if oks and not exit_on_exception:
                        run.fail({"subcheck": "portfolio:raised-although-a-member-answers"}, case,
                                 "%s: solve() raised %s: %s although member(s) %r answer" % (
                                     label, type(out[1]).__name__, str(out[1])[:200], oks))
                    else:
                        run.cls("raised-as-expected")
                    return None
                if not oks:
                    run.fail({"subcheck": "portfolio:verdict-without-answering-member"}, case,
                             "%s: solve() returned %r although no member can answer (members %r)" % (label, out[1], members))
                    return None
                if out[1] != truth:
                    run.fail({"subcheck": "portfolio:verdict"}, case,
                             "%s: solve() returned %r, the assertions are %s (members %r)" % (
                                 label, out[1], "satisfiable" if truth else "unsatisfiable", members))
                    return None
                return out[1]
            r = judge_solve(live, "first solve")
            if r is not None:
                # "After solving, we only keep the solver that finished first": the losers are stopped (they share
                # the control pipe with the winner, so a survivor would answer the winner's requests)
                t_end = time.time() + 3.0
                while len(multiprocessing.active_children()) > 1 and time.time() < t_end:
                    time.sleep(0.05)
                alive = len(multiprocessing.active_children())
                run.cls("losers-checked")
                if alive > 1:
                    run.fail({"subcheck": "portfolio:loser-left-running"}, case,
                             "%d member processes are still alive 3 s after solve() returned (members %r)" % (alive, members))
            if r is True:
                out = call_with_deadlock_watch(lambda: port.get_model())
                if out[0] == "deadlock":
                    run.fail({"subcheck": "portfolio:get_model-blocks"}, case, "get_model() blocks with no member alive")
                elif out[0] == "raised":
                    run.fail({"subcheck": "portfolio:get_model-raised"}, case, "get_model raised %s: %s" % (type(out[1]).__name__, out[1]))
                elif out[0] == "ok":
                    model = out[1]
                    I = {}
                    good = True
                    for (n, t) in reffv(b):
                        s = pys.build(env, sym(n, t))
                        try:
                            I[n] = model.get_value(s).constant_value()
                        except Exception as e:
                            run.fail({"subcheck": "portfolio:model-incomplete"}, case, "model has no value for %s (%s)" % (n, e))
                            good = False
                            break
                    if good and not Evaluator(I, {}).eval(b):
                        run.fail({"subcheck": "portfolio:model-does-not-satisfy"}, case, "model %r falsifies the assertion" % I)
                    run.cls("model-checked")
                # value query over the symbols that the solver knows (those of the simplified assertion)
                if reffv(pys.decode(f.simplify())) == reffv(b):
                    out = call_with_deadlock_watch(lambda: port.get_value(f))
                    if out[0] == "ok":
                        if not out[1].is_true():
                            run.fail({"subcheck": "portfolio:value"}, case, "get_value(assertion) = %s after sat" % out[1])
                    elif out[0] == "deadlock":
                        run.fail({"subcheck": "portfolio:get_value-blocks"}, case, "get_value() blocks with no member alive")
                    elif out[0] == "raised":
                        run.fail({"subcheck": "portfolio:get_value-raised"}, case, "get_value raised %s: %s" % (type(out[1]).__name__, out[1]))
            if r is not None and oks and not exit_on_exception:
                # solving under assumptions: the verdict is the one of assertions + assumptions, the assertions stay
                ass = [[e2], (e2,), iter([e2]), (x_ for x_ in [e2])][len(repr(fbp)) % 4]     # any iterable
                out = call_with_deadlock_watch(lambda: port.solve(ass))
                if out[0] == "ok":
                    run.cls("solve-under-assumptions")
                    if out[1] != brute([b, b2]):
                        run.fail({"subcheck": "portfolio:verdict-under-assumptions"}, case,
                                 "solve([%s]) returned %r with the assertion %s (members %r)" % (show(b2, 80), out[1], show(b, 80), members))
                    elif list(port.assertions) != [f]:
                        run.fail({"subcheck": "portfolio:assumptions-left-asserted"}, case, "assertions after solve(assumptions): %s" % list(port.assertions))
                elif out[0] == "deadlock":
                    run.fail({"subcheck": "portfolio:blocks-forever", "all_fail": False}, case, "solve(assumptions) blocks")
            if r is not None:
                # push / assert / solve / pop / solve
                port.push()
                port.add_assertion(e2)
                r2 = judge_solve([b, b2], "solve after push+assert")
                port.pop()
                if r2 is not None:
                    r3 = judge_solve([b], "solve after pop")
                    run.cls("full-cycle")
                    if r3 is not None and oks and not exit_on_exception:
                        # one-shot queries back to back, then a two-level pop: the assertion stack the members see
                        # must be the user's
                        ne2 = env.formula_manager.Not(e2)
                        for q, qb in ((e2, b2), (ne2, ("NOT", (), (b2,)))):
                            out = call_with_deadlock_watch(lambda q=q: port.is_sat(q))
                            if out[0] == "ok" and out[1] != brute([b, qb]):
                                run.fail({"subcheck": "portfolio:is_sat-verdict"}, case,
                                         "is_sat(%s) returned %r with the assertion %s" % (show(qb, 80), out[1], show(b, 80)))
                            elif out[0] == "deadlock":
                                run.fail({"subcheck": "portfolio:blocks-forever", "all_fail": False}, case, "is_sat blocks")
                        judge_solve([b], "solve after two is_sat")
                        port.push()
                        port.add_assertion(e2)
                        port.push()
                        port.add_assertion(ne2)
                        judge_solve([b, b2, ("NOT", (), (b2,))], "solve inside two levels")
                        port.pop(2)
                        judge_solve([b], "solve after pop(2)")
                        run.cls("oneshot-and-pop2-cycle")
                        # two levels opened in one go, closed one by one
                        try:
                            port.push(2)
                            port.add_assertion(e2)
                            judge_solve([b, b2], "solve after push(2)+assert")
                            port.pop()
                            if list(port.assertions) != [f]:
                                run.fail({"subcheck": "portfolio:assertions-after-pop"}, case,
                                         "push(2), assert, pop(1): the assertions are %s" % list(port.assertions))
                            port.add_assertion(ne2)
                            judge_solve([b, ("NOT", (), (b2,))], "solve at level 1 of a push(2)")
                            port.pop()
                            judge_solve([b], "solve after push(2) closed by two pops")
                        except Exception as ex:
                            run.fail({"subcheck": "portfolio:push-pop-raised", "exc": type(ex).__name__}, case,
                                     "push(2) / pop / pop raised %s: %s" % (type(ex).__name__, ex))
                        run.cls("push2-pop-pop-cycle")
                        if all(m_ == "ok" for (_, m_) in members) and r3 is True:
                            # a one-shot query on which EVERY member dies (the processes exit at check-sat): it must
                            # raise, and the query must not stay asserted for the next solve
                            m_ = env.formula_manager
                            deadly = m_.Symbol(DIE)          # (nothing the simplifier could remove)
                            out = call_with_deadlock_watch(lambda: port.is_sat(deadly))
                            run.cls("oneshot-on-which-all-members-die")
                            if out[0] == "ok":
                                run.fail({"subcheck": "portfolio:verdict-without-answering-member"}, case,
                                         "is_sat returned %r although every member process died on the query" % (out[1],))
                            elif out[0] == "deadlock":
                                run.fail({"subcheck": "portfolio:blocks-forever", "all_fail": True}, case,
                                         "is_sat blocks although every member process died on the query")
                            # (nothing keeps the exception of the failed query alive: what it references - frames,
                            #  pipes of the dead members - is gone when the next query starts)
                            out = None
                            import gc
                            gc.collect()
                            judge_solve([b], "solve after a one-shot query that killed every member")
                            # an assertion made right after a one-shot query
                            out = call_with_deadlock_watch(lambda: port.is_sat(ne2))
                            port.add_assertion(e2)
                            judge_solve([b, b2], "solve after is_sat + add_assertion")
                            run.cls("assertion-right-after-oneshot")
    finally:
        try:
            if port is not None:
                port.exit()
        except Exception:
            pass
        for p in multiprocessing.active_children():
            try:
                p.terminate()
            except Exception:
                pass
        # options given to one member must reach that member only
        try:
            for i in range(len(members)):
                vals = set()
                for rec in read_log(os.path.join(tmp, "log%d.jsonl" % i)):
                    if (rec["cmd"] or "").startswith("(set-option :vf-member"):
                        vals.add(int(rec["cmd"].split()[2].rstrip(")")))
                want = {tagged[i]} if i in tagged else set()
                if tagged and vals - want:      # (a member stopped early may not have received its own yet)
                    run.fail({"subcheck": "portfolio:member-options"}, case,
                             "member %d received the member options %s, it was given %s" % (i, sorted(vals), sorted(want)))
        except Exception:
            pass
        # finishing order of the members at the first check-sat
        order = []
        for i in range(len(members)):
            for rec in read_log(os.path.join(tmp, "log%d.jsonl" % i)):
                if rec["cmd"] == "(check-sat)":
                    order.append((rec["t"], i))
                    break
        order.sort()
        if len(order) >= 2:
            run.cls("finish-order:" + "".join(str(i) for (_, i) in order))
            if any(b_[0] - a_[0] < 0.02 for a_, b_ in zip(order, order[1:])):
                run.cls("near-tie<20ms")
        import shutil
        shutil.rmtree(tmp, ignore_errors=True)
        for junk in ('"stdout"', "stdout"):
            try:
                if os.path.exists(junk) and os.path.getsize(junk) == 0:
                    os.remove(junk)
            except Exception:
                pass
    run.case(key=(members, fbp, extra_bp, exit_on_exception), nontrivial=len(modes) >= 2 or near_tie,
             sample={"members": members, "formula": show(fbp, 100), "exit_on_exception": exit_on_exception})
    for (_, m) in members:
        run.cls("mode:" + m)
    if not oks:
        run.cls("all-members-fail")
    if near_tie:
        run.cls("equal-delays")
    if any(d >= 1000 for (d, _) in members):
        run.cls("slow-survivor")


def shard(shard, seed, n):
    run = Run(PID)

    def body(rnd):
        g = G(cfg=CFG, rnd=rnd)
        k = rnd.randint(2, 4)
        if rnd.random() < 0.25:
            members = tuple((rnd.choice(DELAYS), rnd.choice(MODES[3:])) for _ in range(k))      # every member fails
        else:
            members = tuple((rnd.choice(DELAYS), rnd.choice(MODES)) for _ in range(k))
        f = g.term(BOOL, 3)
        if rnd.random() < 0.3:
            f = ("AND", (), (f, ("NOT", (), (f,))))
        extra = g.term(BOOL, 2)
        if rnd.random() < 0.45:
            # all members answer, (nearly) at the same time, and the verdict flips at the second query:
            # a reply of a loser of one race must not be taken for an answer of the next
            d = rnd.choice(DELAYS[:3])
            members = tuple((d, "ok") for _ in range(k))
            extra = ("NOT", (), (f,))
        elif rnd.random() < 0.12:
            # the only answering member is much slower than the failures of the others
            members = tuple([(rnd.choice([1200, 1800]), "ok")] +
                            [(rnd.choice([0, 5, 20]), rnd.choice(["crash", "exit", "die-at-start", "garbage"])) for _ in range(k - 1)])
            members = tuple(rnd.sample(list(members), len(members)))
        check_case(run, members, f, extra, rnd.random() < 0.25)
    drive(body, st.randoms(use_true_random=True), n, derive_seed(seed, "c19", shard))
    return run


def main():
    chk = Check(PID, "exploration", RULE, assumptions=[
        "the harness owns the members' delays and failure modes, not the OS scheduler: completion orders and near-ties "
        "are sampled (the observed orders are reported), a race whose window is a few microseconds is not enumerated",
        "the deadlock predicate (no member process alive + call not returned after a 1.5 s grace period) is the only "
        "liveness verdict; budget overruns with live members are inconclusive",
        "members are vf/refsolver.py processes behind pySMT's generic SmtLibSolver"])
    thorough = chk.tier == "thorough"
    jobs = [(shard, dict(shard=s, seed=chk.seed, n=150 if thorough else 14)) for s in range(16)]
    chk.add(run_shards(jobs))
    chk.floor("all-members-fail", 15)
    chk.floor("model-checked", 15)
    chk.floor("full-cycle", 15)
    chk.floor("oneshot-and-pop2-cycle", 10)
    chk.floor("push2-pop-pop-cycle", 10)
    chk.floor("slow-survivor", 3)
    return chk.finish()


def replay(rec):
    run = Run(PID, known=[])
    c = rec["case"]
    check_case(run, tuple(tuple(m) for m in c["members"]), c["formula"], c["extra"], c["exit_on_exception"])
    if run.violations:
        print("VIOLATION property=%s replay=(replayed)" % PID)
        print(run.violations[0]["detail"])
        return 1
    print("replay: no violation")
    return 0
