"""C16 - scripts and incremental solvers track exactly the live assertions."""
import itertools
import warnings

from hypothesis import strategies as st

from pysmt.environment import Environment
from pysmt.smtlib.script import SmtLibScript, SmtLibCommand
import pysmt.smtlib.commands as smtcmd
import pysmt.typing as pt

from vf.harness import Run, Check, run_shards, drive, derive_seed
from vf.brute import BruteSolver, BackendError

warnings.filterwarnings("ignore")

PID = "C16"
RULE = ("(script) every legal command sequence up to length L over {assert x3, assert-soft with ids none/g/h and weights, "
        "push 0/1/2, pop 0/1/2, reset-assertions, check-sat, minimize / maximize (:id, :signed), minmax / maxmin} and "
        "sampled sequences up to length 40: get_last_formula(return_optimizations=True) must equal the live assertions "
        "(by identity) and the live goals (kind, terms, signedness, soft clauses with weights) of an executable reference "
        "model of the SMT-LIB assertion stack; get_strict_formula must raise with push/pop and equal the conjunction "
        "otherwise.  (solver) every legal sequence up to length L over {add_assertion x2, push 0/1/2, pop 0/1/2, "
        "reset_assertions, solve, solve(literal), solve(non-literal), is_sat, is_valid, is_unsat, observe} on a concrete "
        "IncrementalTrackingSolver whose backend rejects illegal pops: at every observation solver.assertions and the "
        "backend frames must equal the reference, and every verdict the brute-force truth.  non-trivial = a pop after "
        "assertions in a pushed level, a one-shot query followed by another command, reset inside a pushed level, a soft "
        "group losing clauses on pop; distinct by sequence")


# ---------------------------------------------------------------- script side

SCRIPT_LETTERS = ["A", "B", "C3", "S0", "Sg", "Sg2", "Sz", "Sh", "P0", "P1", "P2", "Q0", "Q1", "Q2", "R", "K", "Mi", "Ma", "MM", "Mb"]
# ("RR" = (reset) is understood by the machinery below but not generated: the property quantifies over assert / push /
#  pop / reset-assertions / check commands)


class ScriptWorld(object):
    def __init__(self):
        self.env = Environment()
        m = self.env.formula_manager
        self.m = m
        self.a, self.b, self.c, self.d, self.e = [m.Symbol(n) for n in "abcde"]
        self.x = m.Symbol("x", pt.INT)
        self.y = m.Symbol("y", pt.INT)
        self.v = m.Symbol("v", self.env.type_manager.BVType(4))
        self.w = m.Symbol("w", self.env.type_manager.BVType(4))

    def command(self, letter):
        """-> (SmtLibCommand, reference event)"""
        m = self.m
        if letter == "A":
            return SmtLibCommand(smtcmd.ASSERT, [self.a]), ("assert", self.a)
        if letter == "B":
            f = m.Or(m.Not(self.a), self.b)
            return SmtLibCommand(smtcmd.ASSERT, [f]), ("assert", f)
        if letter == "C3":
            f = m.LT(self.x, self.y)
            return SmtLibCommand(smtcmd.ASSERT, [f]), ("assert", f)
        if letter == "S0":
            return SmtLibCommand(smtcmd.ASSERT_SOFT, [self.c, []]), ("soft", "", self.c, 1)
        if letter == "Sg":
            return (SmtLibCommand(smtcmd.ASSERT_SOFT, [self.d, [(":weight", m.Int(2)), (":id", "g")]]),
                    ("soft", "g", self.d, 2))
        if letter == "Sg2":
            return (SmtLibCommand(smtcmd.ASSERT_SOFT, [self.e, [(":id", "g"), (":weight", m.Real(3))]]),
                    ("soft", "g", self.e, 3))
        if letter == "Sz":
            # a soft clause that costs nothing is a soft clause of its group all the same
            return (SmtLibCommand(smtcmd.ASSERT_SOFT, [self.b, [(":id", "g"), (":weight", m.Int(0))]]),
                    ("soft", "g", self.b, 0))
        if letter == "Sh":
            return SmtLibCommand(smtcmd.ASSERT_SOFT, [self.e, [(":id", "h")]]), ("soft", "h", self.e, 1)
        if letter[0] == "P":
            return SmtLibCommand(smtcmd.PUSH, [int(letter[1])]), ("push", int(letter[1]))
        if letter[0] == "Q":
            return SmtLibCommand(smtcmd.POP, [int(letter[1])]), ("pop", int(letter[1]))
        if letter == "R":
            return SmtLibCommand(smtcmd.RESET_ASSERTIONS, []), ("reset",)
        if letter == "RR":
            # (reset) empties the assertion stack too (and removes the declarations: the text route re-declares)
            return SmtLibCommand(smtcmd.RESET, []), ("reset",)
        if letter == "K":
            return SmtLibCommand(smtcmd.CHECK_SAT, []), ("check",)
        if letter == "Mi":
            return (SmtLibCommand(smtcmd.MINIMIZE, [self.x, [(":id", "o1"), (":signed", False)]]),
                    ("goal", "min", (self.x,), False))
        if letter == "Ma":
            return (SmtLibCommand(smtcmd.MAXIMIZE, [self.v, [(":signed", True)]]),
                    ("goal", "max", (self.v,), True))
        if letter == "Mb":
            # the options in the other order: :signed after :id
            return (SmtLibCommand(smtcmd.MINIMIZE, [self.w, [(":id", "o2"), (":signed", True)]]),
                    ("goal", "min", (self.w,), True))
        if letter == "MM":
            return (SmtLibCommand(smtcmd.MINMAX, [[self.v, self.w], [(":signed", False)]]),
                    ("goal", "minmax", (self.v, self.w), False))
        raise KeyError(letter)


DECLS_TEXT = ("(declare-fun a () Bool)(declare-fun b () Bool)(declare-const c Bool)(declare-fun d () Bool)"
              "(declare-fun e () Bool)(declare-fun x () Int)(declare-fun y () Int)"
              "(declare-fun v () (_ BitVec 4))(declare-fun w () (_ BitVec 4))")
TEXT = {
    "A": ["(assert a)"], "B": ["(assert (or (not a) b))"], "C3": ["(assert (< x y))"],
    "S0": ["(assert-soft c)"], "Sg": ["(assert-soft d :weight 2 :id g)", "(assert-soft d :id g :weight 2)"],
    "Sg2": ["(assert-soft e :id g :weight 3)"], "Sh": ["(assert-soft e :id h)"], "Sz": ["(assert-soft b :id g :weight 0)"],
    "P0": ["(push 0)"], "P1": ["(push 1)", "(push)"], "P2": ["(push 2)"],
    "Q0": ["(pop 0)"], "Q1": ["(pop 1)", "(pop)"], "Q2": ["(pop 2)"],
    "R": ["(reset-assertions)"], "K": ["(check-sat)"], "RR": ["(reset)" + DECLS_TEXT],
    "Mi": ["(minimize x :id o1)"], "Ma": ["(maximize v :signed)"], "MM": ["(minmax v w)"],
    "Mb": ["(minimize w :id o2 :signed)"],
}
DECLS = ("(declare-fun a () Bool)(declare-fun b () Bool)(declare-const c Bool)(declare-fun d () Bool)"
         "(declare-fun e () Bool)(declare-fun x () Int)(declare-fun y () Int)"
         "(declare-fun v () (_ BitVec 4))(declare-fun w () (_ BitVec 4))\n")


EVALUABLE = {"A", "B", "C3", "P0", "P1", "P2", "Q0", "Q1", "Q2", "R", "K"}


def _script_brute():
    from vf.brute import BruteSolver
    from pysmt.solvers.smtlib import SmtLibBasicSolver

    class ScriptBrute(BruteSolver, SmtLibBasicSolver):
        """The incremental reference solver with the SMT-LIB command interface evaluate() drives."""
    return ScriptBrute


ScriptBrute = _script_brute()


def script_from_text(world, seq, pick):
    """The same sequence written as SMT-LIB text and read by the parser."""
    from io import StringIO
    from pysmt.smtlib.parser import SmtLibParser
    text = DECLS + "\n".join(TEXT[l][pick % len(TEXT[l])] for l in seq) + "\n"
    return SmtLibParser(world.env).get_script(StringIO(text)), text


def legal(seq):
    """Legal in SMT-LIB: never pop more levels than are open."""
    depth = 0
    for l in seq:
        if l[0] == "P":
            depth += int(l[1])
        elif l[0] == "Q":
            if int(l[1]) > depth:
                return False
            depth -= int(l[1])
        elif l in ("R", "RR"):
            depth = 0
    return True


def reference_script(events):
    """-> (live assertions, live goals) ; goal = (kind, terms, signed) | ('maxsmt', id, [(clause, weight)])"""
    frames = [[]]
    for ev in events:
        if ev[0] == "push":
            for _ in range(ev[1]):
                frames.append([])
        elif ev[0] == "pop":
            for _ in range(ev[1]):
                frames.pop()
        elif ev[0] == "reset":
            frames = [[]]
        elif ev[0] in ("assert", "soft", "goal"):
            frames[-1].append(ev)
    asserts, goals, groups = [], [], {}
    for fr in frames:
        for ev in fr:
            if ev[0] == "assert":
                asserts.append(ev[1])
            elif ev[0] == "goal":
                goals.append(("goal", ev[1], ev[2], ev[3]))
            else:
                _, gid, clause, weight = ev
                if gid not in groups:
                    groups[gid] = []
                    goals.append(("maxsmt", gid, groups[gid]))
                groups[gid].append((clause, weight))
    return asserts, goals


def describe_goal(g):
    if g.is_maxsmt_goal():
        return ("maxsmt", [(c, w.constant_value()) for (c, w) in g.soft])
    kind = "minmax" if g.is_minmax_goal() else "maxmin" if g.is_maxmin_goal() else \
        "min" if g.is_minimization_goal() else "max"
    terms = tuple(g.terms) if kind in ("minmax", "maxmin") else (g.term(),)
    return ("goal", kind, terms, bool(g.signed))


def check_script_sequence(run, world, seq, via_text=None):
    sc = SmtLibScript()
    events = []
    for l in seq:
        c, ev = world.command(l)
        sc.add_command(c)
        events.append(ev)
    if via_text is not None:
        with world.env:
            try:
                sc, text = script_from_text(world, seq, via_text)
            except Exception as e:
                run.fail({"subcheck": "script:text-rejected", "exc": type(e).__name__}, {"script": list(seq), "via_text": via_text},
                         "the parser rejected the legal sequence %s: %s: %s" % (" ".join(seq), type(e).__name__, e))
                return
        run.cls("script:read-from-text")
    want_asserts, want_goals = reference_script(events)
    pops_after_assert = any(l[0] == "Q" and l != "Q0" for l in seq) and any(l in ("A", "B", "C3") for l in seq)
    soft_loses = any(l[0] == "S" for l in seq) and any(l[0] == "Q" and l != "Q0" for l in seq)
    run.case(key=("s:" if via_text is None else "t%d:" % via_text) + ",".join(seq), nontrivial=pops_after_assert or soft_loses or ("R" in seq and any(l[0] == "P" for l in seq)))
    if soft_loses:
        run.cls("script:soft-and-pop")
    case = {"script": list(seq), "via_text": via_text}
    with world.env:
        try:
            f, goals = sc.get_last_formula(return_optimizations=True)
        except Exception as e:
            run.fail({"subcheck": "script:get_last_formula-raised", "exc": type(e).__name__}, case,
                     "get_last_formula raised %s: %s on the legal sequence %s" % (type(e).__name__, e, " ".join(seq)))
            return
        want_f = world.m.And(want_asserts)
        if f is not want_f:
            run.fail({"subcheck": "script:live-assertions"}, case,
                     "sequence %s: reported %s, live assertions are %s" % (" ".join(seq), f, want_f))
            return
        got = [describe_goal(g) for g in goals]
        want = []
        for g in want_goals:
            if g[0] == "maxsmt":
                want.append(("maxsmt", [(c, w) for (c, w) in g[2]]))
            else:
                want.append(g)
        if got != want:
            run.fail({"subcheck": "script:live-goals"}, case,
                     "sequence %s: reported goals %r, live goals are %r" % (" ".join(seq), got, want))
            return
        # the script executed on an incremental solver (SmtLibScript.evaluate): after it, the solver holds the same
        # live assertions (scripts without optimisation commands)
        if all(l in EVALUABLE for l in seq):
            solver = ScriptBrute(world.env)
            try:
                log = sc.evaluate(solver)
            except Exception as e:
                run.fail({"subcheck": "script:evaluate-raised", "exc": type(e).__name__}, case,
                         "evaluate() of the legal sequence %s on an incremental solver raised %s: %s" % (" ".join(seq), type(e).__name__, e))
                return
            run.cls("script:evaluated-on-a-solver")
            live = list(solver.assertions)
            if len(live) != len(want_asserts) or any(x is not y for x, y in zip(live, want_asserts)) or \
                    solver.backend_assertions() != live:
                run.fail({"subcheck": "script:evaluate-live-assertions"}, case,
                         "sequence %s executed with evaluate(): the solver holds %s (backend %s), live assertions are %s" % (
                             " ".join(seq), live, solver.backend_assertions(), want_asserts))
                return
            verdicts = [r for (n, r) in log if n == "check-sat"]
            if any(v is not True for v in verdicts):        # a, (not a) or b, x < y: always satisfiable
                run.fail({"subcheck": "script:evaluate-verdict"}, case,
                         "sequence %s executed with evaluate(): check-sat verdicts %s" % (" ".join(seq), verdicts))
                return
        # get_strict_formula
        has_pp = any(l[0] in "PQ" for l in seq)
        nk = sum(1 for l in seq if l == "K")
        try:
            sf = sc.get_strict_formula()
            raised = False
        except Exception:
            raised = True
        if has_pp and not raised:
            run.fail({"subcheck": "script:strict-accepts-push-pop"}, case, "get_strict_formula accepted %s" % " ".join(seq))
        elif not has_pp and nk == 1:
            # the conjunction of the assertions (those that a reset-assertions / reset has not removed)
            last = max([i for i, ev in enumerate(events) if ev[0] == "reset"] + [-1])
            allasserts = world.m.And([ev[1] for ev in events[last + 1:] if ev[0] == "assert"])
            if raised or sf is not allasserts:
                run.fail({"subcheck": "script:strict-formula"}, case, "get_strict_formula on %s" % " ".join(seq))


def shard_script_exhaustive(shard, nshards, maxlen):
    run = Run(PID)
    world = ScriptWorld()
    idx = 0
    for n in range(1, maxlen + 1):
        for seq in itertools.product(SCRIPT_LETTERS, repeat=n):
            idx += 1
            if idx % nshards != shard:
                continue
            if not legal(seq):
                continue
            check_script_sequence(run, world, seq)
            check_script_sequence(run, world, seq, via_text=(idx // nshards) % 2)
    run.cls("script:exhaustive-sequences", run.evaluations)
    return run


def shard_script_sampled(shard, seed, n):
    run = Run(PID)
    world = ScriptWorld()

    def body(rnd):
        k = rnd.randint(5, 40)
        seq = []
        depth = 0
        for _ in range(k):
            l = rnd.choice(SCRIPT_LETTERS)
            if l[0] == "Q" and int(l[1]) > depth:
                l = rnd.choice(["P1", "A", "Sg", "Q0"])
            if l[0] == "P":
                depth += int(l[1])
            elif l[0] == "Q":
                depth -= int(l[1])
            elif l in ("R", "RR"):
                depth = 0
            seq.append(l)
        check_script_sequence(run, world, tuple(seq), via_text=rnd.choice([None, 0, 1]))
        run.cls("script:sampled-long")
    drive(body, st.randoms(use_true_random=True), n, derive_seed(seed, "c16s", shard))
    return run


# ---------------------------------------------------------------- solver side

SOLVER_LETTERS = ["A", "B", "N", "P0", "P1", "P2", "Q0", "Q1", "Q2", "R", "S", "SL", "SN", "I", "V", "U", "O", "IC", "VC"]


def _portfolio_brute():
    from pysmt.solvers.portfolio import Portfolio
    from pysmt.decorators import clear_pending_pop
    from pysmt.logics import QF_BOOL

    class PortfolioBrute(Portfolio):
        """pysmt's Portfolio (an IncrementalTrackingSolver without a backend stack of its own) whose _solve decides the
        tracked assertions by enumeration instead of starting processes."""

        def __init__(self, env):
            Portfolio.__init__(self, [], environment=env, logic=QF_BOOL)
            self.asked = None

        @clear_pending_pop
        def _solve(self, assumptions=None):
            import itertools as it
            forms = list(self.assertions) + list(assumptions or [])
            self.asked = forms
            syms = sorted({x for f in forms for x in f.get_free_variables()}, key=lambda x: x.symbol_name())
            m = self.environment.formula_manager
            for vals in it.product([False, True], repeat=len(syms)):
                model = dict(zip(syms, [m.Bool(v) for v in vals]))
                if all(self.environment.simplifier.simplify(self.environment.substituter.substitute(f, model)).is_true() for f in forms):
                    return True
            return False

        def backend_assertions(self):
            return list(self.assertions)

        @property
        def backend(self):
            return [None] * (1 + len(self._backtrack_points))
    return PortfolioBrute


PortfolioBrute = _portfolio_brute()


_PORTFOLIO_ENV = []


def check_solver_sequence(run, seq, portfolio=False):
    if portfolio:
        # (one environment per process: constructing a Portfolio asks the factory for its solvers)
        if not _PORTFOLIO_ENV:
            _PORTFOLIO_ENV.append(Environment())
        env = _PORTFOLIO_ENV[0]
    else:
        env = Environment()
    m = env.formula_manager
    a, b, c = m.Symbol("a"), m.Symbol("b"), m.Symbol("c")
    fa, fb = a, m.Or(m.Not(a), b)
    fn = m.And(c, m.Not(b))
    q = m.And(c, m.Not(b))
    truth_syms = [a, b, c]

    def sat(forms):
        import itertools as it
        for vals in it.product([False, True], repeat=3):
            model = dict(zip(truth_syms, [m.Bool(v) for v in vals]))
            if all(env.simplifier.simplify(env.substituter.substitute(f, model)).is_true() for f in forms):
                return True
        return False
    frames = [[]]
    case = {"solver": list(seq), "portfolio": portfolio}
    oneshot_then_more = False
    with env:
        s = PortfolioBrute(env) if portfolio else BruteSolver(env)
        try:
            for i, l in enumerate(seq):
                live = [f for fr in frames for f in fr]
                if l in ("I", "V", "U", "IC", "VC") and i + 1 < len(seq):
                    oneshot_then_more = True
                if l == "A":
                    s.add_assertion(fa)
                    frames[-1].append(fa)
                elif l == "B":
                    s.add_assertion(fb)
                    frames[-1].append(fb)
                elif l == "N":
                    s.add_assertion(fn, named="n1")
                    frames[-1].append(fn)
                elif l[0] == "P":
                    s.push(int(l[1]))
                    for _ in range(int(l[1])):
                        frames.append([])
                elif l[0] == "Q":
                    s.pop(int(l[1]))
                    for _ in range(int(l[1])):
                        frames.pop()
                elif l == "R":
                    s.reset_assertions()
                    frames = [[]]
                elif l in ("S", "SL", "SN"):
                    ass = {"S": None, "SL": [m.Not(b)], "SN": [m.Or(c, a), m.Not(b)]}[l]
                    r = s.solve(ass)
                    want = sat(live + (ass or []))
                    if r != want:
                        run.fail({"subcheck": "solver:verdict", "call": l}, case,
                                 "step %d (%s) of %s returned %r, truth is %r" % (i, l, " ".join(seq), r, want))
                        return
                elif l in ("I", "V", "U"):
                    if l == "I":
                        r, want = s.is_sat(q), sat(live + [q])
                    elif l == "V":
                        r, want = s.is_valid(q), not sat(live + [m.Not(q)])
                    else:
                        r, want = s.is_unsat(q), not sat(live + [q])
                    if r != want:
                        run.fail({"subcheck": "solver:verdict", "call": l}, case,
                                 "step %d (%s) of %s returned %r, truth is %r" % (i, l, " ".join(seq), r, want))
                        return
                elif l in ("IC", "VC"):
                    # one-shot queries on the Boolean constants (shortcuts inside the queries must not skip the
                    # bookkeeping of the temporary level)
                    if l == "IC":
                        r, want = s.is_sat(m.FALSE()), False
                    else:
                        r, want = s.is_valid(m.TRUE()), True
                    if r != want:
                        run.fail({"subcheck": "solver:verdict", "call": l}, case,
                                 "step %d (%s) of %s returned %r, truth is %r" % (i, l, " ".join(seq), r, want))
                        return
                elif l == "O":
                    live = [f for fr in frames for f in fr]
                    got = list(s.assertions)
                    if got != live or s.backend_assertions() != live or (not portfolio and len(s.backend) != len(frames)):
                        run.fail({"subcheck": "solver:assertions"}, case,
                                 "after step %d of %s: solver.assertions=%s backend=%s (depth %d), live assertions are %s (depth %d)" % (
                                     i, " ".join(seq), got, s.backend_assertions(), len(s.backend) - 1, live, len(frames) - 1))
                        return
        except BackendError as e:
            run.fail({"subcheck": "solver:illegal-backend-pop"}, case,
                     "the legal sequence %s made the tracking layer issue an illegal pop: %s" % (" ".join(seq), e))
            return
        except Exception as e:
            run.fail({"subcheck": "solver:raised", "exc": type(e).__name__}, case,
                     "the legal sequence %s raised %s: %s" % (" ".join(seq), type(e).__name__, e))
            return
        # final observation
        live = [f for fr in frames for f in fr]
        got = list(s.assertions)
        if got != live or s.backend_assertions() != live or (not portfolio and len(s.backend) != len(frames)):
            run.fail({"subcheck": "solver:assertions"}, case,
                     "at the end of %s: solver.assertions=%s backend=%s (depth %d), live assertions are %s (depth %d)" % (
                         " ".join(seq), got, s.backend_assertions(), len(s.backend) - 1, live, len(frames) - 1))
    pops_after = any(l[0] == "Q" and l != "Q0" for l in seq) and any(l in "ABN" for l in seq)
    run.case(key=("w:" if portfolio else "v:") + ",".join(seq), nontrivial=pops_after or oneshot_then_more)
    if portfolio:
        run.cls("solver:portfolio-class")
    if oneshot_then_more:
        run.cls("solver:oneshot-then-command")


def shard_solver_exhaustive(shard, nshards, maxlen):
    run = Run(PID)
    idx = 0
    for n in range(1, maxlen + 1):
        for seq in itertools.product(SOLVER_LETTERS, repeat=n):
            idx += 1
            if idx % nshards != shard:
                continue
            if not legal(seq):
                continue
            check_solver_sequence(run, seq)
            if idx % 4 == 0:
                check_solver_sequence(run, seq, portfolio=True)
    run.cls("solver:exhaustive-sequences", run.evaluations)
    return run


def shard_solver_sampled(shard, seed, n):
    run = Run(PID)

    def body(rnd):
        k = rnd.randint(5, 30)
        seq, depth = [], 0
        for _ in range(k):
            l = rnd.choice(SOLVER_LETTERS)
            if l[0] == "Q" and int(l[1]) > depth:
                l = rnd.choice(["P1", "A", "I", "O"])
            if l[0] == "P":
                depth += int(l[1])
            elif l[0] == "Q":
                depth -= int(l[1])
            elif l == "R":
                depth = 0
            seq.append(l)
        check_solver_sequence(run, tuple(seq), portfolio=rnd.random() < 0.3)
        run.cls("solver:sampled-long")
    drive(body, st.randoms(use_true_random=True), n, derive_seed(seed, "c16v", shard))
    return run


def main():
    chk = Check(PID, "exploration", RULE, assumptions=[
        "reference model of the SMT-LIB assertion stack in vf/checks/c16.py (objectives and soft clauses are scoped by "
        "push / pop like assertions; a soft group exists while it has a live clause)",
        "the concrete IncrementalTrackingSolver is vf/brute.py, decorated like the native solver classes",
        "only sequences that are legal in SMT-LIB are executed (no pop below the open levels)"])
    thorough = chk.tier == "thorough"
    L = 5 if thorough else 4
    LS = 5 if thorough else 4
    jobs = [(shard_script_exhaustive, dict(shard=s, nshards=8, maxlen=L)) for s in range(8)]
    jobs += [(shard_solver_exhaustive, dict(shard=s, nshards=8, maxlen=LS)) for s in range(8)]
    jobs += [(shard_script_sampled, dict(shard=s, seed=chk.seed, n=40000 if thorough else 3000)) for s in range(2)]
    jobs += [(shard_solver_sampled, dict(shard=s, seed=chk.seed, n=20000 if thorough else 1500)) for s in range(2)]
    chk.add(run_shards(jobs))
    chk.exhaustive.append("all legal script sequences up to length %d over %d letters" % (L, len(SCRIPT_LETTERS)))
    chk.exhaustive.append("all legal solver-API sequences up to length %d over %d letters" % (LS, len(SOLVER_LETTERS)))
    chk.floor("script:soft-and-pop", 500)
    chk.floor("solver:oneshot-then-command", 500)
    chk.floor("script:sampled-long", 1000)
    chk.floor("solver:sampled-long", 1000)
    return chk.finish()


def replay(rec):
    run = Run(PID, known=[])
    c = rec["case"]
    if "script" in c:
        check_script_sequence(run, ScriptWorld(), tuple(c["script"]), via_text=c.get("via_text"))
    else:
        check_solver_sequence(run, tuple(c["solver"]), portfolio=c.get("portfolio", False))
    if run.violations:
        print("VIOLATION property=%s replay=(replayed)" % PID)
        print(run.violations[0]["detail"])
        return 1
    print("replay: no violation")
    return 0
