"""C14 - results do not depend on what the environment was used for before."""
import warnings
from fractions import Fraction

from hypothesis import strategies as st

from pysmt.environment import Environment

from vf import bp as B
from vf.bp import BOOL, INT, REAL, STRING, BV, is_bv, is_fun, show, subterms, sym
from vf.refsem import reftype, IllTyped
from vf.gen import G, Cfg
from vf.harness import Run, Check, run_shards, drive, derive_seed
from vf import pys
from vf.twin import (SERVICES, IDEMPOTENT_OBJECT, BOOL_ONLY, run_call, outcome_key, related_formulas, random_call)

warnings.filterwarnings("ignore")

PID = "C14"
RULE = ("a generated history of 5-25 service calls (type query, simplify, substitute with different maps, free symbols, atoms, "
        "qf, sorts, theory, logic, size with different measures, SMT-LIB / HR printing, print-parse, nnf, cnf, prenex, aig, "
        "Ackermann, propagate_toplevel, Shannon QE) over formulas that share sub-DAGs with a probe formula (its sub-terms, "
        "super-terms, siblings), followed by probe calls of every service on the probe and on one of its sub-terms; a twin "
        "fresh environment executes only the probes.  Results must be equal under an AC-canonical, fresh-name-agnostic key; "
        "repeated calls of services that create no fresh symbol must return the very same object; constructor calls with "
        "out-of-domain Python values must have a history-independent outcome.  non-trivial = the history used the probed "
        "service on a formula sharing a sub-DAG with the probe; distinct by (history, probe) hash")

CFG = Cfg(max_depth=3, theories={"bool", "int", "real", "bv", "arr", "uf", "str", "quant", "sort"}, bv_widths=[1, 2, 4],
          quant_types=[BOOL, BV(1), INT], share=35, nsyms=2)


def check_history(run, probe, history, probes, oob):
    from vf.checks import c15
    worldA = c15.World()
    envA, envB = worldA.env, Environment()
    used = set()
    produced = []
    for call in history:
        if call[0] == "!script":
            # the environment's long-lived parser object has read another script before
            c15.parse_probe(worldA, call[1])
            run.cls("history-with-parsed-script")
            continue
        if call[0] == "!fresh":
            # the environment has handed out fresh names before (FV9 -> FV10: names of another length / order)
            for _ in range(call[1]):
                envA.formula_manager.FreshSymbol()
            run.cls("history-with-fresh-symbols")
            continue
        if call[0] == "!fail":
            # a call that raises is part of what the environment was used for before
            if c15.do_fail(worldA, call[1]):
                run.cls("history-with-failing-call")
            continue
        out = run_call(envA, call)
        used.add(call[0])
        if out[0] == "ok" and call[0] in ("simplify", "substitute", "nnf", "prenex", "aig", "propagate_toplevel") and len(produced) < 3:
            try:
                with envA:
                    pb_ = pys.decode(out[1])
                from vf.refsem import all_symbols
                if all_symbols(pb_) <= all_symbols(call[1]):        # no fresh symbols: a fresh environment names them anew
                    produced.append((call[0], pb_))
            except Exception:
                pass
    # formulas that the history *produced* are probed too (a fresh environment builds them directly)
    if produced:
        import random
        g2 = G(cfg=CFG, rnd=random.Random(len(history) * 7919 + len(probes)))
        probes = list(probes)
        for (svc, pb) in produced:
            try:
                bool_ok = reftype(pb) == BOOL
            except IllTyped:
                continue
            for n in ("simplify", svc if (bool_ok or svc not in BOOL_ONLY) else "simplify", "free_vars", "size"):
                probes.append(random_call(g2, pb, forced=n))
            run.cls("probe-on-a-produced-formula")
    case = {"probe": probe, "history": history, "probes": probes}
    nontriv = any(p[0] in used for p in probes)
    run.case(key=(probe, [(c[0], c[2] if len(c) > 2 else None) for c in history]), nontrivial=nontriv,
             sample={"probe": show(probe, 120), "history": [c[0] for c in history]} if len(history) > 8 else None)
    for call in probes:
        if call[0] == "parse-with-long-lived-parser":
            # the same text through the parser object that has been used before / through a new parser
            from io import StringIO
            from pysmt.smtlib.parser import SmtLibParser
            a = c15.parse_probe(worldA, call[1])
            with envB:
                try:
                    b = ("ok", SmtLibParser(envB).get_script(StringIO(call[1])).get_last_formula())
                except Exception as e:
                    b = ("raised", type(e).__name__)
            call = ("parse-with-long-lived-parser", ("CONST", (STRING, call[1][:120]), ()), None)      # (for the report)
        else:
            a = run_call(envA, call)
            b = run_call(envB, call)
        ka, kb = outcome_key(envA, a, call), outcome_key(envB, b, call)
        run.cls("probe:" + call[0])
        if ka != kb:
            run.fail({"subcheck": "history:result-differs", "service": call[0]}, dict(case, failing=call),
                     "%s on %s gives %r after the history, %r in a fresh environment\n history=%s" % (
                         call[0], show(call[1], 200), _brief(envA, a), _brief(envB, b), [c[0] for c in history]))
            continue
        if call[0] in IDEMPOTENT_OBJECT and a[0] == "ok":
            a2 = run_call(envA, call)
            same = a2[0] == "ok" and (a2[1] is a[1] or (isinstance(a[1], frozenset) and a2[1] == a[1]))
            if not same:
                run.fail({"subcheck": "history:repeat-not-identical", "service": call[0]}, dict(case, failing=call),
                         "repeating %s on %s returns a different object" % (call[0], show(call[1], 200)))
    # constructors with out-of-domain python values
    for (ctor, val, warm) in oob:
        envC, envD = Environment(), Environment()
        for w in warm:
            try:
                getattr(envC.formula_manager, w[0])(*w[1])
            except Exception:
                pass
        outs = []
        for e in (envC, envD):
            try:
                r = getattr(e.formula_manager, ctor)(val)
                outs.append("value")
            except Exception:
                outs.append("raised")
        run.cls("out-of-domain-constant")
        if outs[0] != outs[1]:
            run.fail({"subcheck": "history:constructor-outcome", "ctor": ctor}, {"ctor": ctor, "value": repr(val), "warm": warm},
                     "%s(%r) %s after %s, but %s in a fresh environment" % (ctor, val, outs[0], warm, outs[1]))


def foreign_type(ty):
    """The same sort built through the module-level helpers of pysmt.typing (another type manager)."""
    import pysmt.typing as pt
    from vf.bp import is_arr, is_sort
    if ty == BOOL:
        return pt.BOOL
    if ty == INT:
        return pt.INT
    if ty == REAL:
        return pt.REAL
    if ty == STRING:
        return pt.STRING
    if is_bv(ty):
        return pt.BVType(ty[1])
    if is_arr(ty):
        return pt.ArrayType(foreign_type(ty[1]), foreign_type(ty[2]))
    if is_fun(ty):
        return pt.FunctionType(foreign_type(ty[1]), [foreign_type(p) for p in ty[2]])
    if is_sort(ty):
        return pt.Type(ty[1])
    raise ValueError(ty)


def check_redeclaration(run, ty, first_foreign):
    """Declaring the same symbol twice with equal sorts obtained from different type managers."""
    env, fresh = Environment(), Environment()
    t_env = lambda e: pys.to_ptype(e, ty)
    run.cls("redeclaration-equal-sort")
    try:
        a = env.formula_manager.Symbol("redecl", foreign_type(ty) if first_foreign else t_env(env))
        b = env.formula_manager.Symbol("redecl", t_env(env) if first_foreign else foreign_type(ty))
        out = "same" if a is b else "different-object"
    except Exception as e:
        out = "raised %s" % type(e).__name__
    try:
        fresh.formula_manager.Symbol("redecl", t_env(fresh) if first_foreign else foreign_type(ty))
        ref = "same"
    except Exception as e:
        ref = "raised %s" % type(e).__name__
    if out != ref:
        run.fail({"subcheck": "history:redeclaration-equal-sort"}, {"type": ty, "first_foreign": first_foreign},
                 "Symbol('redecl', %r) after declaring it with an equal sort: %s; in a fresh environment: %s" % (ty, out, ref))


def _brief(env, out):
    if out[0] != "ok":
        return out
    r = out[1]
    try:
        from pysmt.fnode import FNode
        if isinstance(r, FNode):
            with env:
                return show(pys.decode(r), 200)
    except Exception:
        pass
    return str(r)[:200]


OOB = [("Int", True, [("Int", (1,))]), ("Int", 1.0, [("Int", (1,))]), ("Int", Fraction(2), [("Int", (2,))]),
       ("Real", True, [("Real", (1,))]), ("Int", False, [("Int", (0,))]), ("String", 1, [("String", ("1",))]),
       ("Real", "1", [("Real", (1,))]), ("Int", "0", [("Int", (0,))]),
       ("Real", (3.0, 4.0), [("Real", ((3, 4),))]), ("Real", (True, 4), [("Real", ((1, 4),))]),
       ("Real", (Fraction(3), 4), [("Real", ((3, 4),))]),
       ("Real", __import__("decimal").Decimal("0.5"), [("Real", (0.5,))]), ("Real", 1 + 0j, [("Real", (1,))]),
       ("Int", __import__("decimal").Decimal("2"), [("Int", (2,))])]


def reftype_bool(b):
    try:
        return reftype(b) == BOOL
    except IllTyped:
        return False


def gen_case(rnd):
    g = G(cfg=CFG, rnd=rnd)
    probe = g.term(BOOL if g.pct(70) else g.ty())
    if g.pct(15):
        # top-level equalities between symbols (what propagate_toplevel picks representatives from)
        T = g.choice([INT, REAL, BV(2)])
        a_, b_, c_ = g.symbol(T), g.symbol(T), g.symbol(T)
        eqs = [("EQUALS", (), (a_, b_))] + ([("EQUALS", (), (c_, b_))] if g.pct(50) else [])
        body = probe if reftype_bool(probe) else ("EQUALS", (), (probe, probe))
        probe = ("AND", (), tuple(eqs + [body, ("NOT", (), (("EQUALS", (), (a_, g.term(T, 1))),))]))
    rel = related_formulas(g, probe) + [probe, probe]
    if g.pct(50):
        rel.append(g.term(g.ty(), 2))
    history = [random_call(g, g.choice(rel)) for _ in range(g.rnd.randint(5, 25))]
    if g.pct(35):
        from vf.checks import c15
        for _ in range(g.rnd.randint(1, 3)):
            history.insert(g.rnd.randrange(len(history) + 1), ("!fail", c15.gen_fail(g, probe, rel)))
    forced_probes = []
    if g.pct(20):
        # an analysis of an application p(s, b) / f(s, c) whose other arguments contribute nothing (a Bool symbol, a
        # constant) comes first; then the analyses of the formulas around the shared term s are probed
        cands = []
        for s_ in subterms(probe):
            try:
                ts = reftype(s_)
            except IllTyped:
                continue
            if not is_fun(ts):
                cands.append((s_, ts))
        if cands:
            s_, ts = g.choice(cands)
            other = g.choice([g.symbol(BOOL), ("BOOL_CONSTANT", (True,), ())])
            ret = g.choice([BOOL, ts])
            app_ = ("FUNCTION", ("pf_%s" % ("b" if ret == BOOL else "t"), ("Fun", ret, (ts, BOOL))), (s_, other))
            svc = g.choice(["theory", "logic"])
            history.insert(g.rnd.randrange(min(3, len(history)) + 1), (svc, app_, None))
            forced_probes = [(n, x_, None) for n in ("theory", "logic") for x_ in (probe, s_)]
    try:
        t = reftype(probe)
    except IllTyped:
        t = None
    names = [n for n in SERVICES if (t == BOOL or n not in BOOL_ONLY)]
    probes = [random_call(g, probe, forced=n) for n in g.rnd.sample(names, min(len(names), 10))]
    subs = [s for s in subterms(probe) if s[2] and s is not probe]
    if subs:
        s0 = g.choice(subs)
        probes += [random_call(g, s0, forced=n) for n in ("theory", "size", "substitute", "get_types", "free_vars")]
    probes += forced_probes
    if g.pct(15):
        history.insert(0, ("!fresh", g.choice([8, 9, 10, 98, 99, 100])))
        i_, r_ = ("i0", INT), ("r0", REAL)
        atom = ("LT", (), (("TOREAL", (), (sym(*i_),)), sym(*r_)))
        two = ("AND", (), (("FORALL", (i_, r_), (atom,)), atom) + ((probe,) if t == BOOL else ()))
        probes += [("prenex", two, None), ("simplify", ("FORALL", (i_, r_), (("OR", (), (atom, atom)),)), None)]
    if g.pct(15):
        lg = g.choice(["QF_LRA", "QF_LIA", "QF_RDL", "QF_UFLRA", "QF_BV"])
        history.insert(g.rnd.randrange(len(history) + 1),
                       ("!script", "(set-logic %s)\n(declare-fun c14b () Bool)\n(assert (or c14b (not c14b)))\n" % lg))
        # numerals are typed by the logic of THIS text (none: Int)
        probes.append(("parse-with-long-lived-parser",
                       "(declare-fun c14b () Bool)\n(declare-fun c14f (Int) Bool)\n(assert (and (> (ite c14b 1 2) 0) (c14f 3)))\n", None))
        probes.append(("parse-with-long-lived-parser",
                       "(set-logic QF_LRA)\n(declare-fun c14r () Real)\n(assert (< c14r (+ 1 2)))\n", None))
    if g.pct(10):
        # many relations are analysed first (one large conjunction, or many small queries); then difference-shaped
        # atoms are probed: whatever bounds the work of an analysis is per call, not per environment
        T = g.choice([INT, REAL])
        k_ = lambda v: ("CONST", (T, v if T == INT else Fraction(v)), ())
        rels = [("LE", (), (sym("c14m%d" % i_, T), k_(i_))) for i_ in range(g.choice([34, 40, 70]))]
        where = g.rnd.randrange(len(history) + 1)
        svc = g.choice(["theory", "logic"])
        if g.pct(50):
            history.insert(where, (svc, ("AND", (), tuple(rels)), None))
        else:
            for r_ in rels:
                history.insert(where, (svc, r_, None))
        x_, y_ = sym("c14dx", T), sym("c14dy", T)
        for dl in (("LT", (), (x_, y_)), ("LE", (), (("MINUS", (), (x_, y_)), k_(3))),
                   ("EQUALS", (), (("MINUS", (), (x_, y_)), ("ITE", (), (sym("c14dp", BOOL), k_(1), k_(2)))))):
            probes += [("logic", dl, None), ("theory", dl, None)]
    oob = [g.choice(OOB)] if g.pct(30) else []
    return probe, history, probes, oob


def shard(shard, seed, n):
    run = Run(PID)

    def body(rnd):
        check_history(run, *gen_case(rnd))
        if rnd.randrange(100) < 25:
            g = G(cfg=Cfg(bv_widths=[1, 3, 12, 8, 33]), rnd=rnd)
            ty = g.ty() if rnd.random() < 0.7 else ("Fun", g.param_type(), (g.param_type(), g.param_type()))
            check_redeclaration(run, ty, rnd.random() < 0.5)
    drive(body, st.randoms(use_true_random=True), n, derive_seed(seed, "c14", shard))
    return run


def main():
    chk = Check(PID, "exploration", RULE, assumptions=[
        "results are compared under an AC-canonical key in which every fresh-looking name (FVn, ackn, __xn, .def_n) is "
        "one placeholder (sound: never reports a legitimate renaming; weaker than a bijection check)",
        "a twin fresh Environment is the reference; both run in the same process"])
    thorough = chk.tier == "thorough"
    jobs = [(shard, dict(shard=s, seed=chk.seed, n=8000 if thorough else 500)) for s in range(16)]
    chk.add(run_shards(jobs))
    for svc in ("simplify", "substitute", "size", "theory", "logic", "to_smtlib", "parse_print", "prenex", "cnf"):
        chk.floor("probe:" + svc, 500)
    chk.floor("out-of-domain-constant", 300)
    chk.floor("redeclaration-equal-sort", 500)
    return chk.finish()


def replay(rec):
    run = Run(PID, known=[])
    c = rec["case"]
    if "ctor" in c:
        return 0
    check_history(run, c["probe"], [tuple(x) for x in c["history"]], [tuple(x) for x in c["probes"]], [])
    if run.violations:
        print("VIOLATION property=%s replay=(replayed)" % PID)
        print(run.violations[0]["detail"])
        return 1
    print("replay: no violation")
    return 0
