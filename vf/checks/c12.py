"""C12 - formula analyses (free symbols, atoms, qf-ness, sorts, sizes) are exact."""
import warnings

from hypothesis import strategies as st

from pysmt.environment import Environment
from pysmt.oracles import SizeOracle

from vf import bp as B
from vf.bp import BOOL, INT, REAL, STRING, BV, SORT, is_bv, is_arr, is_fun, is_sort, show, subterms
from vf.refsem import (Evaluator, reftype, reffv, all_symbols, IllTyped, Unconstrained, NoSemantics, canon)
from vf.gen import G, Cfg, exhaustive_interps
from vf.harness import Run, Check, run_shards, drive, derive_seed
from vf import pys

warnings.filterwarnings("ignore")

PID = "C12"
RULE = ("generated formulas (binders shadowing free symbols, UF, Boolean terms inside theory terms, shared sub-DAGs) "
        "x every analysis: get_free_variables / get_atoms / is_qf / get_types / size(all 6 measures) compared with "
        "independent recursive definitions on the decoded blueprint, plus semantic dependence tests (value does not "
        "depend on symbols not reported free; interpretations agreeing on all reported atoms give the same truth "
        "value).  non-trivial = formula with a binder, a UF application, a Boolean term below a theory term or a shared "
        "sub-DAG; distinct by blueprint hash")

RELATIONS = {"EQUALS", "LE", "LT", "BV_ULT", "BV_ULE", "BV_SLT", "BV_SLE", "STR_CONTAINS", "STR_PREFIXOF",
             "STR_SUFFIXOF"}
CONNECTIVES = {"AND", "OR", "NOT", "IMPLIES", "IFF", "FORALL", "EXISTS"}


def refatoms(t, tmemo):
    """Maximal Boolean sub-terms that are not connectives / quantifiers / Boolean ITE / constants,
    reached only through those."""
    op = t[0]
    if op in CONNECTIVES:
        out = set()
        for c in t[2]:
            out |= refatoms(c, tmemo)
        return out
    if op == "ITE":
        out = set()
        for c in t[2]:
            out |= refatoms(c, tmemo)
        return out
    if op == "CONST":
        return set()
    return {t}


def type_components(ty, acc):
    if ty in acc:
        return acc
    acc.add(ty)
    if is_arr(ty):
        type_components(ty[1], acc)
        type_components(ty[2], acc)
    elif is_fun(ty):
        type_components(ty[1], acc)
        for p in ty[2]:
            type_components(p, acc)
    else:
        from vf.bp import sort_args
        for a in sort_args(ty):         # instance of a parametric sort: its argument sorts
            type_components(a, acc)
    return acc


def ref_type_bounds(b):
    """(lower, upper) sets of sorts for get_types."""
    lower, upper = set(), set()
    tm = {}
    for s in subterms(b):
        op, params, ch = s
        try:
            type_components(reftype(s, tm), upper)
        except IllTyped:
            pass
        if op == "SYMBOL":
            if is_fun(params[1]):
                for c in (params[1][1],) + params[1][2]:
                    type_components(c, lower)
            else:
                type_components(params[1], lower)
        elif op == "FUNCTION":
            for c in (params[1][1],) + params[1][2]:
                type_components(c, lower)
            type_components(params[1], upper)
        elif op in ("FORALL", "EXISTS"):
            for (_, t) in params:
                type_components(t, lower)
        elif op == "ARRAY_VALUE":
            type_components(params[0], lower)
    upper |= lower
    return lower, upper


def tree_measures(b):
    memo = {}

    def go(t):
        k = id(t)
        if k in memo and memo[k][0] is t:
            return memo[k][1]
        if not t[2]:
            r = (1, 1, 1)
        else:
            cs = [go(c) for c in t[2]]
            r = (1 + sum(c[0] for c in cs), sum(c[1] for c in cs), 1 + max(c[2] for c in cs))
        memo[k] = (t, r)
        return r
    return go(b)


def bool_dag(b):
    seen = set()

    def go(t):
        if t in seen:
            return
        seen.add(t)
        if t[0] in RELATIONS:
            return
        for c in t[2]:
            go(c)
    go(b)
    return len(seen)


def check_formula(run, bp, g, cards):
    try:
        return _check_formula(run, bp, g, cards)
    except Exception as e:
        import traceback
        tb = traceback.extract_tb(e.__traceback__)
        if not tb or "/pysmt/" not in tb[-1].filename:
            raise                # (an error of the harness itself)
        # an analysis of a well-typed formula raised inside pySMT
        run.fail({"subcheck": "analysis-raised", "exc": type(e).__name__, "where": tb[-1].name},
                 {"formula": bp}, "%s raised in %s (%s:%d) while analysing %s" % (
                     type(e).__name__, tb[-1].name, tb[-1].filename.rsplit("/", 1)[-1], tb[-1].lineno, show(bp, 200)))


def _check_formula(run, bp, g, cards):
    env = Environment()
    with env:
        try:
            f = pys.build(env, bp)
        except Exception:
            run.discard("rejected-by-constructor")
            return
        b = pys.decode(f)
        try:
            ty = reftype(b)
        except IllTyped:
            run.discard("illtyped")
            return
        ops = B.ops_of(b)
        has_binder = bool(ops & {"FORALL", "EXISTS"})
        shared = B.tree_size(b) > B.size(b)
        nontriv = has_binder or "FUNCTION" in ops or shared
        run.case(key=b, nontrivial=nontriv, sample=show(b, 200) if nontriv else None)
        if has_binder:
            run.cls("binder")
            bound = {v for s in subterms(b) if s[0] in ("FORALL", "EXISTS") for v in s[1]}
            if bound & reffv(b):
                run.cls("binder-shadows-free")
        if "FUNCTION" in ops:
            run.cls("uf")
        if shared:
            run.cls("shared")
        case = {"bp": bp, "cards": cards}

        def fail(kind, detail):
            run.fail({"subcheck": "analysis:" + kind}, case, "%s\n formula=%s" % (detail, show(b)))

        # -- free symbols
        want = reffv(b)
        fv = env.fvo.get_free_variables(f)
        got = set()
        for s in fv:
            got.add((s.symbol_name(), pys.from_ptype(s.symbol_type())))
        if got != want or f.get_free_variables() != fv:
            fail("free-variables", "reported %r expected %r" % (sorted(got, key=repr), sorted(want, key=repr)))
        # -- quantifier freeness
        qf = env.qfo.is_qf(f)
        if qf != (not has_binder):
            fail("is_qf", "reported %r" % qf)
        # -- sizes
        tree, leaves, depth = tree_measures(b)
        M = SizeOracle
        sizes = {
            "TREE_NODES": (M.MEASURE_TREE_NODES, tree), "DAG_NODES": (M.MEASURE_DAG_NODES, B.size(b)),
            "LEAVES": (M.MEASURE_LEAVES, leaves), "DEPTH": (M.MEASURE_DEPTH, depth),
            "BOOL_DAG": (M.MEASURE_BOOL_DAG, bool_dag(b)),
        }
        nsym_leaves = len({s for s in subterms(b) if s[0] == "SYMBOL"})
        nsym_all = len(all_symbols(b))
        sizes["SYMBOLS"] = (M.MEASURE_SYMBOLS, None)
        # every measure, in two different random orders (what one measure memoises must not leak into another)
        order = list(sizes.items())
        for _pass in range(2):
            g.rnd.shuffle(order)
            for name, (m, exp) in order:
                v = f.size(m)
                # the three entry points agree (FNode.size, the environment's oracle, the shortcut)
                import pysmt.shortcuts as _sc
                others = (env.sizeo.get_size(f, m), _sc.get_formula_size(f, m))
                if others != (v, v):
                    fail("size-entry-points", "size(%s): FNode.size %r, env.sizeo.get_size %r, shortcuts.get_formula_size %r" % (
                        name, v, others[0], others[1]))
                if name == "SYMBOLS":
                    if not (nsym_leaves <= v <= max(nsym_all, nsym_leaves)):
                        fail("size-SYMBOLS", "size(SYMBOLS) = %r outside [%d, %d]" % (v, nsym_leaves, nsym_all))
                elif v != exp:
                    fail("size-" + name, "size(%s) = %r expected %r (order of the queries: %s)" % (
                        name, v, exp, [n_ for n_, _ in order]))
        if f.size() != tree:
            fail("size-default", "size() = %r expected TREE_NODES %r" % (f.size(), tree))
        # -- sorts
        lower, upper = ref_type_bounds(b)
        got_types = env.typeso.get_types(f)
        rep = {pys.from_ptype(t) for t in got_types}
        if isinstance(got_types, list):
            # the answer belongs to the caller: what the caller does with it does not change the next answer
            got_types.reverse()
            del got_types[len(got_types) // 2:]
            try:
                again = {pys.from_ptype(t) for t in env.typeso.get_types(f)}
            except Exception as e:
                again = "%s: %s" % (type(e).__name__, e)
            run.cls("types:asked-again-after-the-caller-changed-the-answer")
            if again != rep:
                fail("types-answer-shared", "get_types gave %r, and after the caller modified that list %r" % (
                    sorted(rep, key=repr), again if isinstance(again, str) else sorted(again, key=repr)))
        if not (lower <= rep):
            fail("types-missing", "get_types misses %r (reported %r)" % (sorted(lower - rep, key=repr), sorted(rep, key=repr)))
        if not (rep <= upper):
            fail("types-extra", "get_types invents %r" % (sorted(rep - upper, key=repr),))
        custom = {pys.from_ptype(t) for t in env.typeso.get_types(f, custom_only=True)}
        wantc = {t for t in lower if is_sort(t)}
        if not (wantc <= custom) or any(not is_sort(t) for t in custom):
            fail("types-custom", "custom_only reported %r, must contain %r" % (sorted(custom, key=repr), sorted(wantc, key=repr)))
        # -- atoms (Boolean formulas)
        atoms_b = None
        if ty == BOOL:
            want_atoms = refatoms(b, {})
            try:
                atoms = env.ao.get_atoms(f)
            except Exception as e:
                fail("atoms-raised", "%s: %s" % (type(e).__name__, e))
                atoms = None
            if atoms is not None:
                memo = {}
                atoms_b = {pys.decode(a, memo) for a in atoms}
                if atoms_b != want_atoms:
                    fail("atoms", "reported %s expected %s" % (sorted(map(show, atoms_b)), sorted(map(show, want_atoms))))
                # the other entry points
                import pysmt.shortcuts as _sc
                try:
                    others = (f.get_atoms(), _sc.get_atoms(f))
                except Exception as e:
                    others = ("raised " + type(e).__name__,) * 2
                if others != (atoms, atoms):
                    fail("atoms-entry-points", "env.ao.get_atoms %s, FNode.get_atoms %s, shortcuts.get_atoms %s" % (
                        sorted(map(str, atoms)), others[0], others[1]))
                if _sc.get_free_variables(f) != f.get_free_variables():
                    fail("free-variables-entry-points", "shortcuts.get_free_variables differs from FNode.get_free_variables")
    # -- semantic dependence (outside the env)
    syms = sorted(all_symbols(b), key=repr)
    free = reffv(b)
    interps = exhaustive_interps(syms, cards, cap=64)
    if interps is None:
        interps = [g.interp(syms, cards) for _ in range(24)]
    buckets = {}
    try:
        for I in interps:
            v0 = Evaluator(I, cards).eval(b)
            for (n, t) in syms:
                if (n, t) in got:
                    continue
                I2 = dict(I)
                I2[n] = g.value(t, cards)
                v1 = Evaluator(I2, cards).eval(b)
                if canon(v0, ty, cards) != canon(v1, ty, cards):
                    run.fail({"subcheck": "analysis:depends-on-unreported-symbol"}, case,
                             "value changes with %s which is not reported free\n formula=%s" % (n, show(b)))
            if atoms_b is not None and not has_binder:
                key = tuple(sorted((show(a), Evaluator(I, cards).eval(a)) for a in atoms_b))
                if buckets.setdefault(key, v0) != v0:
                    run.fail({"subcheck": "analysis:atoms-do-not-determine-value"}, case,
                             "two interpretations agree on every reported atom %r but the formula differs\n formula=%s" % (
                                 key, show(b)))
        run.cls("semantic-tested")
    except (Unconstrained, NoSemantics):
        run.discard("no-semantics")


CFGS = [Cfg(max_depth=4, pow=True), Cfg(max_depth=5, theories={"bool", "int", "bv", "uf", "quant", "arr", "sort"}, bv_widths=[1, 2, 4]),
        Cfg(max_depth=4, quant_unbounded=True),
        # instances of parametric sorts: their argument sorts are sorts of the formula too
        Cfg(max_depth=3, sorts=["S1", "L{S1}", "P{S2, Int}", "L{Real}", "L{L{S2}}", "P{L{String}, Bool}"])]


def shard(shard, seed, n):
    run = Run(PID)
    cfg = CFGS[shard % len(CFGS)]

    @st.composite
    def strat(draw):
        g = G(cfg=cfg, rnd=draw(st.randoms(use_true_random=True)))
        ty = BOOL if g.pct(75) else g.ty()
        if g.pct(6):
            # a formula that is a single leaf (a constant or a symbol), or the negation of one
            t0 = g.leaf(ty) if g.pct(50) else g.constant(ty) if ty in (BOOL, INT, REAL, STRING) or is_bv(ty) else g.leaf(ty)
            return (("NOT", (), (t0,)) if ty == BOOL and g.pct(40) else t0), g, g.cards()
        return g.term(ty), g, g.cards()

    def body(case):
        check_formula(run, case[0], case[1], case[2])
    drive(body, strat(), n, derive_seed(seed, "c12", shard))
    return run


def shard_enum(shard, nshards, stride, offset):
    """Bounded-exhaustive: the analyses on every connective / quantifier combination (binders shadowing free
    symbols of the same name) and on every one- / two-operator theory term."""
    import itertools
    import random
    from vf import enumterms
    run = Run(PID)
    g = G(cfg=CFGS[0], rnd=random.Random(offset))
    idx = 0
    for t in itertools.chain(enumterms.bool_quant_terms(40 * stride), (x for v in enumterms.depth1().values() for x in v),
                             enumterms.depth2()):
        idx += 1
        if idx % nshards != shard:
            continue
        if idx > 12000 and (idx // nshards) % (8 * stride) != offset % (8 * stride):
            continue
        check_formula(run, t, g, {})
        run.cls("enumerated-term")
    return run


def main():
    chk = Check(PID, "exploration", RULE, assumptions=[
        "definitions in vf/checks/c12.py: atoms = maximal Boolean sub-terms that are not connectives, quantifiers, "
        "Boolean ITE or constants; SYMBOLS judged by a two-sided bound; sorts by a two-sided bound",
        "hash-consing (C04) makes DAG node counts comparable with distinct decoded blueprints"])
    thorough = chk.tier == "thorough"
    jobs = [(shard, dict(shard=s, seed=chk.seed, n=30000 if thorough else 1500)) for s in range(16)]
    jobs += [(shard_enum, dict(shard=s, nshards=16, stride=1 if thorough else 4, offset=chk.seed)) for s in range(16)]
    chk.add(run_shards(jobs))
    chk.floor("binder-shadows-free", 200)
    chk.floor("uf", 500)
    chk.floor("shared", 500)
    chk.floor("semantic-tested", 2000)
    return chk.finish()


def replay(rec):
    import random
    run = Run(PID, known=[])
    c = rec["case"]
    check_formula(run, c["bp"], G(cfg=CFGS[0], rnd=random.Random(0)), c["cards"])
    if run.violations:
        print("VIOLATION property=%s replay=(replayed)" % PID)
        print(run.violations[0]["detail"])
        return 1
    print("replay: no violation")
    return 0
