"""C20 - work is linear in DAG size and independent of nesting depth."""
import sys
import warnings
from io import StringIO

from hypothesis import strategies as st

from pysmt.environment import Environment
import pysmt.typing as pt

from vf.harness import Run, Check, run_shards, drive, derive_seed

warnings.filterwarnings("ignore")

PID = "C20"
RULE = ("parametrised formula families F(operator, sharing pattern, n): full sharing t' = op(t, g(t)) (tree size 2^n for n "
        "DAG levels), Fibonacci sharing t'' = op(t', t), and chains of depth 20000, for every nestable operator (Boolean "
        "connectives, ITE of every sort in every position, Plus/Minus/Times, binary and unary BV operators, Store/Select) "
        "x operations (construction incl. type check, simplify, substitute, free symbols, atoms, is_qf, sorts, logic, size "
        "measures, nnf, prenex, aig, DAG printing, parsing the DAG text back).  Work = number of Python function calls "
        "(sys.setprofile), counted from outside.  (i) abort budget 6000 x distinct nodes; (ii) doubling: work(2n) <= 2.6 x "
        "work(n) + c; (iii) every operation succeeds on the depth-20000 members under the default recursion limit.  "
        "non-trivial = tree/DAG ratio >= 2^20 or depth >= 20000; distinct by (family, operation, n)")


class Budget(BaseException):
    pass


def measure(fn, budget):
    """-> (python calls, result).  Raises Budget as soon as the budget is passed."""
    cnt = [0]

    def prof(frame, event, arg):
        if event == "call":
            cnt[0] += 1
            if cnt[0] > budget:
                sys.setprofile(None)
                raise Budget()
    sys.setprofile(prof)
    try:
        r = fn()
    finally:
        sys.setprofile(None)
    return cnt[0], r


# ---------------------------------------------------------------- families

def leaves(env, ty, k=5):
    mgr = env.formula_manager
    return [mgr.Symbol("l%s_%d" % (str(ty).replace("{", "").replace("}", "").replace(",", "_").replace(" ", ""), i), ty)
            for i in range(k)]


def families(env):
    """name -> (builder(n, pattern) -> Boolean FNode, leaf count)"""
    mgr = env.formula_manager
    tm = env.type_manager
    B, I, R = pt.BOOL, pt.INT, pt.REAL
    BV8 = tm.BVType(8)
    AII = tm.ArrayType(I, I)
    bl, il, rl, vl = leaves(env, B), leaves(env, I), leaves(env, R), leaves(env, BV8)
    al = leaves(env, AII, 2)
    one, oner, onev = mgr.Int(1), mgr.Real(1), mgr.BV(1, 8)

    def bool_fam(op2, g):
        def build(n, pattern):
            return grow(bl, n, pattern, op2, g)
        return build

    def grow(ls, n, pattern, op2, g):
        """pattern: 'full' t' = op(t, g(t)) ; 'fib' t'' = op(t', t) ; 'chain' t' = op(t, leaf)."""
        t0, t1 = ls[0], op2(ls[0], ls[1])
        if pattern == "full":
            t = t1
            for i in range(n):
                t = op2(t, g(t, i))
            return t
        if pattern == "fib":
            a, b = t0, t1
            for i in range(n):
                a, b = b, op2(b, g(a, i))
            return b
        t = t1
        for i in range(n):
            t = op2(t, ls[i % len(ls)])
        return t

    def term_fam(ls, op2, g, rel):
        def build(n, pattern):
            return rel(grow(ls, n, pattern, op2, g))
        return build
    notg = lambda t, i: mgr.Not(t)
    F = {
        # (simplify flattens And-in-And / Or-in-Or, which legitimately makes the *result* quadratic:
        #  the arguments below are never directly the same connective)
        "and": bool_fam(lambda a, b: mgr.And(mgr.Not(a), b), lambda t, i: mgr.Or(t, bl[i % 5])),
        "or": bool_fam(lambda a, b: mgr.Or(mgr.Not(a), b), lambda t, i: mgr.And(t, bl[i % 5])),
        "implies": bool_fam(lambda a, b: mgr.Implies(a, b), notg),
        "iff": bool_fam(lambda a, b: mgr.Iff(a, b), notg),
        "not-and": bool_fam(lambda a, b: mgr.Not(mgr.And(a, b)), lambda t, i: t),
        "ite-bool-cond": bool_fam(lambda a, b: mgr.Ite(a, b, bl[2]), notg),
        "ite-bool-then": bool_fam(lambda a, b: mgr.Ite(bl[2], a, b), notg),
        "ite-bool-else": bool_fam(lambda a, b: mgr.Ite(bl[2], b, a), notg),
        "plus-minus": term_fam(il, lambda a, b: mgr.Minus(mgr.Plus(a, one), b), lambda t, i: mgr.Plus(t, one),
                               lambda t: mgr.LE(t, il[1])),
        "times-ite": term_fam(rl, lambda a, b: mgr.Ite(bl[0], mgr.Times(a, oner), b), lambda t, i: mgr.Minus(t, oner),
                              lambda t: mgr.LT(t, rl[1])),
        "ite-int-then": term_fam(il, lambda a, b: mgr.Ite(bl[1], a, b), lambda t, i: mgr.Minus(t, one),
                                 lambda t: mgr.Equals(t, il[1])),
        "ite-int-else": term_fam(il, lambda a, b: mgr.Ite(bl[1], b, a), lambda t, i: mgr.Minus(t, one),
                                 lambda t: mgr.Equals(t, il[1])),
        "bvadd": term_fam(vl, lambda a, b: mgr.BVAdd(a, b), lambda t, i: mgr.BVNot(t), lambda t: mgr.BVULT(t, vl[1])),
        "bvxor-neg": term_fam(vl, lambda a, b: mgr.BVXor(mgr.BVNeg(a), b), lambda t, i: mgr.BVAdd(t, onev),
                              lambda t: mgr.Equals(t, vl[1])),
        "bvmul-lshr": term_fam(vl, lambda a, b: mgr.BVLShr(mgr.BVMul(a, b), onev), lambda t, i: mgr.BVNot(t),
                               lambda t: mgr.BVSLE(t, vl[1])),
        "bv-ite-then": term_fam(vl, lambda a, b: mgr.BVAdd(mgr.Ite(bl[1], a, b), onev), lambda t, i: mgr.BVNot(t),
                                lambda t: mgr.Equals(t, vl[1])),
        "bv-ite-both": term_fam(vl, lambda a, b: mgr.BVNot(mgr.Ite(bl[1], mgr.Ite(bl[2], a, vl[2]), mgr.Ite(bl[3], b, vl[3]))),
                                lambda t, i: t, lambda t: mgr.Equals(t, vl[1])),
        "bv-ite-direct": term_fam(vl, lambda a, b: mgr.Ite(bl[1], a, b), lambda t, i: mgr.BVAdd(t, onev),
                                  lambda t: mgr.Equals(mgr.BVNot(t), vl[1])),
        "bv-ite-tower": term_fam(vl, lambda a, b: mgr.Ite(bl[1], mgr.Ite(bl[2], a, vl[2]), mgr.Ite(bl[3], b, vl[3])),
                                 lambda t, i: t, lambda t: mgr.Equals(mgr.BVNot(t), mgr.BVAdd(t, vl[1]))),
        "int-ite-tower": term_fam(il, lambda a, b: mgr.Ite(bl[1], mgr.Ite(bl[2], a, il[2]), mgr.Ite(bl[3], b, il[3])),
                                  lambda t, i: t, lambda t: mgr.LE(mgr.Plus(t, one), t)),
        "bvextract-concat": term_fam(vl, lambda a, b: mgr.BVConcat(mgr.BVExtract(a, 0, 3), mgr.BVExtract(b, 4, 7)),
                                     lambda t, i: mgr.BVNot(t), lambda t: mgr.Equals(t, vl[1])),
        "store-select": term_fam(al, lambda a, b: mgr.Store(a, mgr.Select(b, one), one),
                                 lambda t, i: mgr.Store(t, mgr.Int(i), one), lambda t: mgr.Equals(t, al[1])),
        "times-div": term_fam(rl, lambda a, b: mgr.Minus(mgr.Times(a, mgr.Real(3)), mgr.Div(b, mgr.Real(2))),
                              lambda t, i: mgr.Plus(t, oner), lambda t: mgr.LE(t, rl[1])),
    }
    # read-over-write at constant indexes (the shape index-aware array rules look at)
    def select_const_store(n, pattern):
        a = al[0]
        if pattern == "chain":
            for i in range(n):
                a = mgr.Store(a, mgr.Int(i), il[i % 5])
            return mgr.Equals(mgr.Plus(mgr.Select(a, mgr.Int(-1)), mgr.Select(a, mgr.Int(n - 1))), il[1])
        prev = a
        for i in range(n):
            nxt = mgr.Store(a, mgr.Int(i), mgr.Plus(mgr.Select(a, mgr.Int(i + 1)), mgr.Select(prev, mgr.Int(-1))))
            prev, a = (a, nxt) if pattern == "fib" else (nxt, nxt)
        return mgr.Equals(mgr.Select(a, mgr.Int(-1)), il[1])
    F["select-const-store"] = select_const_store
    # directly nested conjunctions / disjunctions (what the partition functions walk through); simplify and
    # propagate_toplevel flatten them (documented, quadratic result) and are not measured on these two
    F["and-direct"] = bool_fam(lambda a, b: mgr.And(mgr.And(a, bl[3]), mgr.And(b, bl[4])), lambda t, i: mgr.And(t, bl[i % 5]))
    F["or-direct"] = bool_fam(lambda a, b: mgr.Or(mgr.Or(a, bl[3]), mgr.Or(b, bl[4])), lambda t, i: mgr.Or(t, bl[i % 5]))
    # division by the constant zero (kept as a term, with a warning)
    zr = mgr.Real(0)
    F["div-by-zero"] = term_fam(rl, lambda a, b: mgr.Plus(mgr.Div(a, zr), mgr.Ite(bl[0], b, oner)), lambda t, i: mgr.Minus(t, oner),
                                lambda t: mgr.LE(mgr.Div(t, zr), rl[1]))
    # uninterpreted functions applied to shared arguments
    fI = mgr.Symbol("fII", tm.FunctionType(I, [I, I]))
    F["uf-apply"] = term_fam(il, lambda a, b: mgr.Function(fI, [a, b]), lambda t, i: mgr.Plus(t, one),
                             lambda t: mgr.Equals(t, il[1]))
    # strings
    S = pt.STRING
    sl = leaves(env, S)
    F["str-concat-replace"] = term_fam(sl, lambda a, b: mgr.StrConcat(mgr.StrReplace(a, sl[2], sl[3]), b),
                                       lambda t, i: mgr.StrSubstr(t, one, mgr.StrLength(t)),
                                       lambda t: mgr.Equals(t, sl[1]))
    # only string operators between two levels (the DAG printer must name their results too)
    F["str-ops-only"] = term_fam(sl, lambda a, b: mgr.StrReplace(a, b, sl[2]),
                                 lambda t, i: mgr.StrSubstr(t, one, mgr.StrLength(t)),
                                 lambda t: mgr.StrContains(t, sl[1]))
    # a chain of bit-vector ITEs whose every level is also observed by a bit-vector operator
    def bv_ite_observed(n, pattern):
        t = vl[0]
        obs = []
        for i in range(n):
            t = mgr.Ite(bl[i % 5], t, vl[1 + i % 3]) if pattern != "fib" else mgr.Ite(bl[i % 5], vl[1 + i % 3], t)
            if pattern == "full":
                t = mgr.Ite(bl[(i + 1) % 5], t, t) if False else t
            obs.append(mgr.BVULT(mgr.BVNot(t), vl[4]))
        return mgr.And(obs)
    F["bv-ite-observed"] = bv_ite_observed
    # integer division towers (printed as div)
    F["int-div"] = term_fam(il, lambda a, b: mgr.Div(a, b), lambda t, i: mgr.Div(t, mgr.Int(3)),
                            lambda t: mgr.LE(mgr.Div(t, il[1]), il[2]))
    # a construction that is rejected at every level (try Equals, fall back to Iff): errors must not cost a re-check
    # of what has been built
    def with_rejections(n, pattern):
        def op2(a, b):
            try:
                mgr.Equals(a, b)
            except Exception:
                pass
            return mgr.Iff(mgr.Not(a), b)
        return grow(bl, n, pattern, op2, lambda t, i: mgr.Implies(t, bl[i % 5]))
    F["with-rejected-constructions"] = with_rejections
    # ... over string operators and array values (the message of the rejection prints the offending term)
    def with_rejections_str(n, pattern):
        def op2(a, b):
            try:
                mgr.Plus(mgr.StrLength(a), mgr.Real(1))
            except Exception:
                pass
            return mgr.StrConcat(a, b)
        t = grow(sl, n, pattern, op2, lambda t, i: mgr.StrReplace(t, sl[i % 5], sl[(i + 1) % 5]))
        return mgr.Equals(t, sl[1])
    F["with-rejected-constructions-str"] = with_rejections_str
    def with_rejections_arr(n, pattern):
        def op2(a, b):
            try:
                mgr.Array(I, a, {mgr.Int(1): mgr.Real(2)})      # ill-typed array value
            except Exception:
                pass
            return mgr.Minus(mgr.Plus(a, one), b)
        t = grow(il, n, pattern, op2, lambda t, i: mgr.Plus(t, one))
        return mgr.LE(t, il[1])
    F["with-rejected-constructions-arr"] = with_rejections_arr
    # every operator with two or more term arguments, nested directly in itself: t' = op(t, op(t, leaf)).
    # (an operator whose printed form is not named by a let makes the text follow the tree; these are measured on the
    #  operations that do not rewrite -- simplify flattens / folds several of them by design)
    v1 = leaves(env, tm.BVType(1))
    DIRECT = {
        "and": (bl, lambda a, b: mgr.And(a, b)), "or": (bl, lambda a, b: mgr.Or(a, b)),
        "implies": (bl, lambda a, b: mgr.Implies(a, b)), "iff": (bl, lambda a, b: mgr.Iff(a, b)),
        "ite-bool": (bl, lambda a, b: mgr.Ite(bl[4], a, b)),
        "int-plus": (il, lambda a, b: mgr.Plus(a, b)), "int-minus": (il, lambda a, b: mgr.Minus(a, b)),
        "int-times": (il, lambda a, b: mgr.Times(a, b)), "int-ite": (il, lambda a, b: mgr.Ite(bl[4], a, b)),
        "real-plus": (rl, lambda a, b: mgr.Plus(a, b)), "real-minus": (rl, lambda a, b: mgr.Minus(a, b)),
        "real-times": (rl, lambda a, b: mgr.Times(a, b)), "real-div": (rl, lambda a, b: mgr.Div(a, b)),
        "real-ite": (rl, lambda a, b: mgr.Ite(bl[4], a, b)),
        "bv-and": (vl, lambda a, b: mgr.BVAnd(a, b)), "bv-or": (vl, lambda a, b: mgr.BVOr(a, b)),
        "bv-xor": (vl, lambda a, b: mgr.BVXor(a, b)), "bv-sub": (vl, lambda a, b: mgr.BVSub(a, b)),
        "bv-mul": (vl, lambda a, b: mgr.BVMul(a, b)), "bv-udiv": (vl, lambda a, b: mgr.BVUDiv(a, b)),
        "bv-urem": (vl, lambda a, b: mgr.BVURem(a, b)), "bv-lshl": (vl, lambda a, b: mgr.BVLShl(a, b)),
        "bv-lshr": (vl, lambda a, b: mgr.BVLShr(a, b)), "bv-ashr": (vl, lambda a, b: mgr.BVAShr(a, b)),
        "bv-sdiv": (vl, lambda a, b: mgr.BVSDiv(a, b)), "bv-srem": (vl, lambda a, b: mgr.BVSRem(a, b)),
        "bv-comp": (v1, lambda a, b: mgr.BVComp(a, b)),
        "bv-concat-extract": (vl, lambda a, b: mgr.BVExtract(mgr.BVConcat(a, b), 4, 11)),
        "store": (al, lambda a, b: mgr.Store(a, one, mgr.Select(b, one))),
        "store-index": (al, lambda a, b: mgr.Store(a, mgr.Select(b, one), one)),
        "str-concat": (sl, lambda a, b: mgr.StrConcat(a, b)),
        "str-indexof": (il, lambda a, b: mgr.StrIndexOf(mgr.IntToStr(a), mgr.IntToStr(b), one)),
        "str-charat": (sl, lambda a, b: mgr.StrCharAt(a, mgr.StrToInt(b))),
        "str-substr": (sl, lambda a, b: mgr.StrSubstr(a, mgr.StrLength(b), one)),
    }
    def direct(ls, op):
        def build(n, pattern):
            t = grow(ls, n, pattern, op, lambda t, i: op(t, ls[i % len(ls)]))
            ty = t.get_type()
            return t if ty.is_bool_type() else mgr.Equals(t, ls[1])
        return build
    for k_, (ls_, op_) in DIRECT.items():
        F["direct:" + k_] = direct(ls_, op_)
    # as many symbols as levels.  Their names are str objects whose comparisons are Python-level calls, so that a
    # linear search through the names (invisible to a call count otherwise: it runs in C) is counted as work
    class CountedName(str):
        __slots__ = ()

        def __eq__(self, other):
            return str.__eq__(self, other)

        def __ne__(self, other):
            return str.__ne__(self, other)

        def __hash__(self):
            return str.__hash__(self)

    def many_symbols(n, pattern):
        # a balanced tree over 8n (chain: n) symbols: the per-node free-symbol sets that the printer and the oracles
        # keep add up to V log V only, so a cost of V per NODE stands out
        k = n if pattern == "chain" else 8 * n
        level = [mgr.Symbol(CountedName("ms%d" % i), B) for i in range(k)]
        d = 0
        while len(level) > 1:
            nxt = []
            for i in range(0, len(level) - 1, 2):
                x, y = level[i], level[i + 1]
                nxt.append(mgr.And(x, mgr.Not(y)) if d % 2 == 0 else mgr.Or(mgr.Not(x), y))
            if len(level) % 2:
                nxt.append(level[-1])
            level = nxt
            d += 1
        return level[0]
    F["many-symbols"] = many_symbols
    # mixed Int/Real with casts and constants on the way (x + 0, x * 1 are folded by the simplifier)
    #  - an ITE between two levels, so that the folded result never nests Plus directly in Plus)
    F["toreal-consts"] = term_fam(il, lambda a, b: mgr.Ite(bl[0], mgr.Times(a, one), mgr.Minus(b, mgr.Int(0))),
                                  lambda t, i: mgr.Ite(bl[i % 5], mgr.Plus(t, one), mgr.Plus(t, mgr.Int(0))),
                                  lambda t: mgr.LT(mgr.ToReal(t), rl[1]))
    # bit-vector rotations / extensions / comparisons to Bool and back
    F["bv-rot-ext-comp"] = term_fam(vl, lambda a, b: mgr.BVExtract(mgr.BVZExt(mgr.BVRol(a, 3), 8), 4, 11) if False else
                                    mgr.BVXor(mgr.BVRor(mgr.BVRol(a, 3), 1), mgr.BVExtract(mgr.BVSExt(b, 4), 2, 9)),
                                    lambda t, i: mgr.Ite(mgr.BVULE(t, vl[2]), t, mgr.BVSub(t, onev)),
                                    lambda t: mgr.Equals(mgr.BVComp(t, vl[1]), mgr.BV(1, 1)))
    # a small quantified conjunct beside a shared quantifier-free tower (whatever a walker does for formulas that are not
    # quantifier-free must not follow the tree of the rest)
    def beside_quantifier(base):
        def build(n, pattern):
            q = mgr.Symbol("q_bound", B)          # (a Boolean binder: every theory has a quantified logic with it)
            return mgr.And(mgr.ForAll([q], mgr.Or(q, bl[0])), F[base](n, pattern))
        return build
    for base in ("plus-minus", "bv-ite-then", "iff", "store-select"):
        F["beside-quantifier:" + base] = beside_quantifier(base)
    return F


def operations(env):
    import pysmt.rewritings as rw
    from pysmt.oracles import get_logic, SizeOracle
    from pysmt.smtlib.script import smtlibscript_from_formula
    from pysmt.smtlib.parser import SmtLibParser
    mgr = env.formula_manager
    b0 = mgr.Symbol("lBool_0", pt.BOOL)
    i0 = mgr.Symbol("lInt_0", pt.INT)

    def dagprint(f):
        buf = StringIO()
        smtlibscript_from_formula(f).serialize(buf, daggify=True)
        return buf.getvalue()

    def printparse(f):
        text = dagprint(f)
        return SmtLibParser(env).get_script(StringIO(text)).get_last_formula()

    def reserialize(f):
        # a script that comes from the parser, written again in DAG form
        sc = SmtLibParser(env).get_script(StringIO(dagprint(f)))
        buf = StringIO()
        sc.serialize(buf, daggify=True)
        return buf.getvalue()
    return {
        "simplify": lambda f: env.simplifier.simplify(f),
        "substitute": lambda f: env.substituter.substitute(f, {b0: mgr.Symbol("lBool_4", pt.BOOL), i0: mgr.Plus(i0, mgr.Int(2))}),
        "free_vars": lambda f: env.fvo.get_free_variables(f),
        "atoms": lambda f: env.ao.get_atoms(f),
        "is_qf": lambda f: env.qfo.is_qf(f),
        "get_types": lambda f: env.typeso.get_types(f),
        "get_logic": lambda f: get_logic(f, env),
        "size-tree": lambda f: env.sizeo.get_size(f, SizeOracle.MEASURE_TREE_NODES),
        "size-depth": lambda f: env.sizeo.get_size(f, SizeOracle.MEASURE_DEPTH),
        "size-leaves": lambda f: env.sizeo.get_size(f, SizeOracle.MEASURE_LEAVES),
        "nnf": lambda f: rw.nnf(f, env),
        "prenex": lambda f: rw.prenex_normal_form(f, env),
        "aig": lambda f: rw.aig(f, env),
        "dag-print": dagprint,
        "print-parse": printparse,
        "script-reserialize": reserialize,
        "conj-partition": lambda f: list(rw.conjunctive_partition(f)),
        "disj-partition": lambda f: list(rw.disjunctive_partition(f)),
        # (with a top-level definition next to the formula: that is what makes the rewriter scan it for binders)
        "propagate-toplevel": lambda f: rw.propagate_toplevel(mgr.And(mgr.Equals(mgr.Symbol("ptl_def", pt.INT), mgr.Int(3)), f), env),
        "get_type": lambda f: env.stc.get_type(f),
    }


def dag_size(f):
    seen = set()
    stack = [f]
    while stack:
        x = stack.pop()
        if x in seen:
            continue
        seen.add(x)
        stack.extend(x.args())
    return len(seen)


K_BUDGET = 6000
DOUBLING = 2.6


# sharing depth for families whose tree expansion has branching factor 3 (an operation that follows the tree must
# still fit in memory long enough to be reported)
FAMILY_N = {"str-ops-only": 6}
OUTPUT_PER_NODE = 4000      # characters of SMT-LIB text per distinct node that DAG printing may produce

FAMILY_SKIP = {"and-direct": {"simplify", "propagate-toplevel"}, "or-direct": {"simplify", "propagate-toplevel"},
               # one flat conjunction of n observations: simplify / nnf / ... rebuild an n-ary And per call (linear),
               # the interesting operation is the construction
               "bv-ite-observed": set(),
               "many-symbols": set()}


NON_REWRITING = {"substitute", "free_vars", "atoms", "is_qf", "get_types", "get_logic", "size-depth", "dag-print",
                 "print-parse", "script-reserialize", "get_type"}


def check_family(run, fam, pattern, n, ops_subset=None):
    """Sharing families: abort budget and doubling test."""
    if fam.startswith("direct:"):
        ops_subset = NON_REWRITING
    if fam.startswith("beside-quantifier:"):
        ops_subset = NON_REWRITING | {"simplify", "nnf", "size-tree", "size-leaves"}
    results = {}
    for size in (n, 2 * n):
        env = Environment()
        with env:
            build = families(env)[fam]
            # construction work (type checking at construction)
            try:
                w, f = measure(lambda: build(size, pattern), K_BUDGET * (8 * size + 50))
            except Budget:
                run.fail({"subcheck": "work:budget", "operation": "construct", "family": fam, "pattern": pattern},
                         {"family": fam, "pattern": pattern, "n": size, "operation": "construct"},
                         "constructing %s/%s with %d levels needs more than %d calls (> %d per level)" % (
                             fam, pattern, size, K_BUDGET * (8 * size + 50), 8 * K_BUDGET))
                return
            nodes = dag_size(f)
            results[("construct", size)] = (w, nodes)
            for name, op in operations(env).items():
                if (ops_subset and name not in ops_subset) or name in FAMILY_SKIP.get(fam, ()):
                    continue
                try:
                    w, out_ = measure(lambda: op(f), K_BUDGET * nodes + 50000)
                    if isinstance(out_, str) and len(out_) > OUTPUT_PER_NODE * nodes + 100000:
                        run.fail({"subcheck": "work:output-size", "operation": name, "family": fam, "pattern": pattern},
                                 {"family": fam, "pattern": pattern, "n": size, "operation": name},
                                 "%s on %s/%s (%d distinct nodes) wrote %d characters: the text follows the tree, not the DAG" % (
                                     name, fam, pattern, nodes, len(out_)))
                        results[(name, size)] = None
                        continue
                except Budget:
                    run.fail({"subcheck": "work:budget", "operation": name, "family": fam, "pattern": pattern},
                             {"family": fam, "pattern": pattern, "n": size, "operation": name},
                             "%s on %s/%s (%d distinct nodes, %d levels) needs more than %d x nodes calls" % (
                                 name, fam, pattern, nodes, size, K_BUDGET))
                    results[(name, size)] = None
                    continue
                except RecursionError:
                    run.fail({"subcheck": "work:recursion", "operation": name, "family": fam, "pattern": pattern},
                             {"family": fam, "pattern": pattern, "n": size, "operation": name},
                             "%s on %s/%s with %d levels hits the recursion limit" % (name, fam, pattern, size))
                    results[(name, size)] = None
                    continue
                except MemoryError:
                    # few Python calls, but values (texts) whose size follows the tree
                    limit_off()
                    run.fail({"subcheck": "work:output-size", "operation": name, "family": fam, "pattern": pattern},
                             {"family": fam, "pattern": pattern, "n": size, "operation": name},
                             "%s on %s/%s (%d distinct nodes) exhausts %d GB of memory" % (name, fam, pattern, nodes, MEMORY_GB))
                    results[(name, size)] = None
                    limit_on()
                    continue
                except Exception as e:
                    run.discard("operation-raised:%s:%s" % (name, type(e).__name__))
                    results[(name, size)] = None
                    continue
                results[(name, size)] = (w, nodes)
    for (name, size), v in list(results.items()):
        if size != n:
            continue
        v2 = results.get((name, 2 * n))
        if v is None or v2 is None:
            continue
        w1, n1 = v
        w2, n2 = v2
        ratio = w2 / max(w1, 1)
        run.case(key=(fam, pattern, name, n), nontrivial=pattern != "chain" and n >= 20,
                 sample={"family": fam, "pattern": pattern, "operation": name, "levels": [n, 2 * n], "nodes": [n1, n2],
                         "python_calls": [w1, w2], "ratio": round(ratio, 2)} if name in ("simplify", "prenex") else None)
        run.cls("measured:" + name)
        if w2 > DOUBLING * w1 + 5000:
            run.fail({"subcheck": "work:doubling", "operation": name, "family": fam, "pattern": pattern},
                     {"family": fam, "pattern": pattern, "n": n, "operation": name},
                     "%s on %s/%s: %d calls for %d nodes but %d calls for %d nodes (x%.2f for x%.2f nodes)" % (
                         name, fam, pattern, w1, n1, w2, n2, ratio, n2 / max(n1, 1)))


def check_deep(run, fam, depth, ops_subset=None):
    """Chains of depth >= 20000 under the default recursion limit."""
    if fam.startswith("direct:"):
        ops_subset = NON_REWRITING
    if fam.startswith("beside-quantifier:"):
        ops_subset = NON_REWRITING | {"simplify", "nnf", "size-tree", "size-leaves"}
    assert sys.getrecursionlimit() <= 1000
    env = Environment()
    with env:
        try:
            f = families(env)[fam](depth, "chain")
        except RecursionError:
            run.fail({"subcheck": "work:recursion", "operation": "construct", "family": fam, "pattern": "chain"},
                     {"family": fam, "pattern": "deep", "n": depth, "operation": "construct"},
                     "constructing a %s chain of depth %d hits the recursion limit" % (fam, depth))
            return
        nodes = dag_size(f)
        for name, op in operations(env).items():
            if (ops_subset and name not in ops_subset) or name in FAMILY_SKIP.get(fam, ()):
                continue
            run.case(key=(fam, "deep", name, depth), nontrivial=True)
            run.cls("deep:" + name)
            try:
                # (the same abort budget as for the sharing families: work that is quadratic in the depth would
                #  otherwise only show as a run that never ends)
                measure(lambda: op(f), K_BUDGET * nodes + 50000)
            except Budget:
                run.fail({"subcheck": "work:budget", "operation": name, "family": fam, "pattern": "chain"},
                         {"family": fam, "pattern": "deep", "n": depth, "operation": name},
                         "%s on a %s chain of depth %d (%d distinct nodes) needs more than %d x nodes calls" % (
                             name, fam, depth, nodes, K_BUDGET))
            except RecursionError:
                run.fail({"subcheck": "work:recursion", "operation": name, "family": fam, "pattern": "chain"},
                         {"family": fam, "pattern": "deep", "n": depth, "operation": name},
                         "%s on a %s chain of depth %d hits the recursion limit" % (name, fam, depth))
            except MemoryError:
                limit_off()
                run.fail({"subcheck": "work:output-size", "operation": name, "family": fam, "pattern": "chain"},
                         {"family": fam, "pattern": "deep", "n": depth, "operation": name},
                         "%s on a %s chain of depth %d (linear size) exhausts %d GB of memory" % (name, fam, depth, MEMORY_GB))
                limit_on()
            except Exception as e:
                run.discard("deep-operation-raised:%s:%s" % (name, type(e).__name__))


MEMORY_GB = 3
_AS_LIMIT = {}


def limit_on():
    import resource
    if "orig" not in _AS_LIMIT:
        _AS_LIMIT["orig"] = resource.getrlimit(resource.RLIMIT_AS)
    resource.setrlimit(resource.RLIMIT_AS, (MEMORY_GB << 30, _AS_LIMIT["orig"][1]))


def limit_off():
    """Also the first thing a MemoryError handler does: recording the failure needs memory."""
    import resource, gc
    if "orig" in _AS_LIMIT:
        resource.setrlimit(resource.RLIMIT_AS, _AS_LIMIT["orig"])
    gc.collect()


def job(items):
    run = Run(PID)
    try:
        for it in items:
            try:
                limit_on()
                if it[0] == "share":
                    check_family(run, it[1], it[2], it[3])
                else:
                    check_deep(run, it[1], it[2])
            except MemoryError:
                # outside a measured operation (construction, counting the nodes)
                limit_off()
                run.fail({"subcheck": "work:output-size", "operation": "construct", "family": it[1], "pattern": str(it[2])},
                         {"family": it[1], "pattern": it[2] if it[0] == "share" else "deep", "n": it[-1], "operation": "construct"},
                         "building / measuring %s exhausts %d GB of memory" % (it[1], MEMORY_GB))
    finally:
        # the result has to travel back to the parent also when an operation filled the memory
        limit_off()
    return run


FAMS = ["and", "or", "implies", "iff", "not-and", "ite-bool-cond", "ite-bool-then", "ite-bool-else", "plus-minus",
        "times-ite", "ite-int-then", "ite-int-else", "bvadd", "bvxor-neg", "bvmul-lshr", "bv-ite-then", "bv-ite-both", "bv-ite-direct", "bv-ite-tower", "int-ite-tower",
        "bvextract-concat", "store-select", "times-div", "select-const-store", "uf-apply", "str-concat-replace",
        "toreal-consts", "bv-rot-ext-comp", "and-direct", "or-direct", "div-by-zero", "str-ops-only", "bv-ite-observed", "int-div", "with-rejected-constructions",
        "with-rejected-constructions-str", "with-rejected-constructions-arr", "many-symbols"]


def main():
    chk = Check(PID, "exploration", RULE, assumptions=[
        "work is measured as the number of Python-level function calls (sys.setprofile) inside the operation",
        "simplify legitimately flattens nested Plus / Times / And / Or: sharing families put a non-flattening operator "
        "between two levels; TimesDistributor and the tree printers are not measured (exponential output by design)",
        "size is measured only for TREE_NODES / LEAVES / DEPTH (the other measures return per-node sets)"])
    thorough = chk.tier == "thorough"
    FAMS.extend(sorted(k for k in families(Environment()) if (k.startswith("direct:") or k.startswith("beside-quantifier:")) and k not in FAMS))
    n = 60 if thorough else 30
    depth = 40000 if thorough else 20000
    items = []
    for fam in FAMS:
        for pattern in ("full", "fib"):
            items.append(("share", fam, pattern, FAMILY_N.get(fam, n)))
        items.append(("share", fam, "chain", 400 if thorough else 200))
    deep_fams = FAMS if thorough else ["and", "implies", "ite-bool-then", "plus-minus", "ite-int-then", "bvadd",
                                       "bv-ite-then", "bv-ite-direct", "store-select", "bvxor-neg", "iff",
                                       "select-const-store", "uf-apply", "str-concat-replace"]
    for fam in deep_fams:
        items.append(("deep", fam, depth))
    jobs = [(job, dict(items=[it])) for it in items]
    chk.add(run_shards(jobs))
    for o in ("simplify", "substitute", "nnf", "prenex", "dag-print", "print-parse", "get_logic"):
        chk.floor("measured:" + o, 30)
        chk.floor("deep:" + o, 5)
    return chk.finish()


def replay(rec):
    run = Run(PID, known=[])
    c = rec["case"]
    limit_on()
    try:
        if c["pattern"] == "deep":
            check_deep(run, c["family"], c["n"], {c["operation"]})
        else:
            check_family(run, c["family"], c["pattern"], c["n"] if c["n"] <= 40 else c["n"] // 2, {c["operation"]})
    except MemoryError:
        limit_off()
        run.fail({"subcheck": "work:output-size", "operation": "construct", "family": c["family"], "pattern": str(c["pattern"])},
                 c, "building / measuring %s exhausts %d GB of memory" % (c["family"], MEMORY_GB))
    finally:
        limit_off()
    if run.violations:
        print("VIOLATION property=%s replay=(replayed)" % PID)
        print(run.violations[0]["detail"])
        return 1
    print("replay: no violation")
    return 0
