"""C18 - optimisation returns the true optimum and restores the solver."""
import itertools
import warnings
from fractions import Fraction

from hypothesis import strategies as st

from pysmt.environment import Environment
import pysmt.typing as pt
from pysmt.optimization.goal import (MinimizationGoal, MaximizationGoal, MaxSMTGoal, MinMaxGoal, MaxMinGoal)

from vf import bp as B
from vf.bp import BOOL, INT, BV, is_bv, sym, const, app, show
from vf.refsem import Evaluator, reffv, reftype, Unconstrained, _signed
from vf.gen import G, Cfg
from vf.harness import Run, Check, run_shards, drive, derive_seed
from vf.common import with_timeout, Timeout
from vf.brute import BruteSolver, BackendError, make_optimizer
from vf import pys

warnings.filterwarnings("ignore")

PID = "C18"
RULE = ("finite-domain constraint systems (Bool, BV3, Int with asserted ranges; satisfiable and unsatisfiable) x goals (Int "
        "terms incl. ITE, signed / unsigned BV terms, MaxSMT with integer - for linear search also rational - weights, "
        "MinMax / MaxMin over 2-3 terms) x optimize / boxed_optimize / lexicographic_optimize / pareto_optimize x "
        "linear|binary x SUA|incremental mixin over a brute-force solver (both enumeration orders), called at level 0 and "
        "inside user push levels.  All models are enumerated: the returned model must satisfy the assertions, the cost "
        "must be the optimum (lexicographic optimum / exactly the Pareto front), None exactly when unsatisfiable, and "
        "solver.assertions and the backend depth must be what they were (a following user pop removes the user's level "
        "only).  non-trivial = >=2 feasible objective values, a negative signed optimum, or >=2 Pareto points; distinct "
        "by (system, goals, routine, strategy, mixin)")

VARS = [("p0", BOOL), ("p1", BOOL), ("v0", BV(3)), ("v1", BV(3)), ("i0", INT), ("i1", INT)]
CFG = Cfg(max_depth=3, theories={"bool", "int", "bv"}, bv_widths=[3], nsyms=2, div=False, small_ints=True, share=20)


class Renamed(G):
    def symbol(self, ty):
        k = self.i(2)
        if ty == BOOL:
            return sym("p%d" % k, BOOL)
        if ty == INT:
            return sym("i%d" % k, INT)
        if ty == BV(3):
            return sym("v%d" % k, ty)
        return self.constant(ty)      # other widths (operands of concat / extract): constants only


def gen_system(rnd):
    g = Renamed(cfg=CFG, rnd=rnd)
    lo, hi = rnd.randint(-2, 0), rnd.randint(1, 4)
    ranges = []
    for n in ("i0", "i1"):
        ranges.append(app("LE", const(INT, lo), sym(n, INT)))
        ranges.append(app("LE", sym(n, INT), const(INT, hi)))
    cons = [g.term(BOOL, rnd.randint(1, 3)) for _ in range(rnd.randint(0, 3))]
    if rnd.random() < 0.12:
        cons.append(app("AND", sym("p0", BOOL), app("NOT", sym("p0", BOOL))))      # unsatisfiable
    return g, ranges + cons


def obj_int(g, rnd, d=2):
    """An Int objective inside the supported fragment: linear over i0, i1 with Boolean-guarded ITE."""
    k = rnd.randrange(6) if d > 0 else rnd.randrange(2)
    if k == 0:
        return sym("i%d" % rnd.randrange(2), INT)
    if k == 1:
        return const(INT, rnd.randint(-2, 3))
    if k == 2:
        return app("PLUS", obj_int(g, rnd, d - 1), obj_int(g, rnd, d - 1))
    if k == 3:
        return app("MINUS", obj_int(g, rnd, d - 1), obj_int(g, rnd, d - 1))
    if k == 4:
        return app("TIMES", const(INT, rnd.randint(-2, 3)), obj_int(g, rnd, d - 1))
    c = rnd.choice([sym("p0", BOOL), sym("p1", BOOL), app("LE", sym("i0", INT), sym("i1", INT)),
                    app("NOT", sym("p0", BOOL))])
    return app("ITE", c, obj_int(g, rnd, d - 1), obj_int(g, rnd, d - 1))


def obj_bv(g, rnd, d=2):
    k = rnd.randrange(7) if d > 0 else rnd.randrange(2)
    if k == 0:
        return sym("v%d" % rnd.randrange(2), BV(3))
    if k == 1:
        return const(BV(3), rnd.randrange(8))
    if k in (2, 3):
        o = rnd.choice(["BV_ADD", "BV_SUB", "BV_AND", "BV_OR", "BV_XOR", "BV_MUL", "BV_LSHR"])
        return app(o, obj_bv(g, rnd, d - 1), obj_bv(g, rnd, d - 1))
    if k == 4:
        return app(rnd.choice(["BV_NOT", "BV_NEG"]), obj_bv(g, rnd, d - 1))
    c = rnd.choice([sym("p0", BOOL), app("BV_ULT", sym("v0", BV(3)), sym("v1", BV(3))), app("NOT", sym("p1", BOOL))])
    return app("ITE", c, obj_bv(g, rnd, d - 1), obj_bv(g, rnd, d - 1))


def gen_goal_spec(g, rnd, allow_maxsmt=True, strategy="linear"):
    k = rnd.choice(["int", "int", "bv", "bv", "minmax", "maxsmt"] if allow_maxsmt else ["int", "bv", "bv", "minmax"])
    if k == "int":
        return (rnd.choice(["min", "max"]), (obj_int(g, rnd),), False)
    if k == "bv":
        return (rnd.choice(["min", "max"]), (obj_bv(g, rnd),), rnd.random() < 0.5)
    if k == "minmax":
        if rnd.random() < 0.5:
            ts = tuple(obj_int(g, rnd, 1) for _ in range(rnd.randint(2, 3)))
            return (rnd.choice(["minmax", "maxmin"]), ts, False)
        ts = tuple(obj_bv(g, rnd, 1) for _ in range(rnd.randint(2, 3)))
        return (rnd.choice(["minmax", "maxmin"]), ts, rnd.random() < 0.5)
    n = rnd.randint(1, 4)
    soft = []
    for _ in range(n):
        w = rnd.randint(1, 4) if (strategy == "binary" or rnd.random() < 0.6) else Fraction(rnd.randint(1, 7), 2)
        soft.append((g.term(BOOL, 2), w))
    if rnd.random() < 0.3:
        soft.append(rnd.choice(soft))            # the same soft clause (and weight) stated twice counts twice
    return ("maxsmt", tuple(soft), False)


def build_goal(env, spec, strategy, real=None):
    kind, terms, signed = spec
    mgr = env.formula_manager
    if kind == "maxsmt":
        real = any(isinstance(w, Fraction) for (_, w) in terms) if real is None else real
        gl = MaxSMTGoal(real_weights=real)
        for (c, w) in terms:
            gl.add_soft_clause(pys.build(env, c), mgr.Real(w) if real else mgr.Int(w))
        return gl
    fs = [pys.build(env, t) for t in terms]
    if kind in ("min", "max"):
        cls = MinimizationGoal if kind == "min" else MaximizationGoal
        if signed and len(repr(terms)) % 2:
            # signedness declared through the public property, after construction
            gl = cls(fs[0])
            gl.signed = True
            return gl
        return cls(fs[0], signed)
    if kind == "minmax":
        return MinMaxGoal(fs, signed)
    return MaxMinGoal(fs, signed)


def objective(spec, I):
    """Value of the objective under interpretation I, in the orientation 'smaller is better'."""
    kind, terms, signed = spec
    if kind == "maxsmt":
        v = sum(w for (c, w) in terms if Evaluator(I, {}).eval(c))
        return -v, v
    vals = []
    for t in terms:
        v = Evaluator(I, {}).eval(t)
        if is_bv(reftype(t)) and signed:
            v = _signed(v, reftype(t)[1])
        vals.append(v)
    if kind == "min":
        return vals[0], vals[0]
    if kind == "max":
        return -vals[0], vals[0]
    if kind == "minmax":
        return max(vals), max(vals)
    return -min(vals), min(vals)


def all_models(system):
    doms = {BOOL: [False, True], INT: list(BruteSolver.INT_WINDOW)}
    syms = VARS
    out = []
    for combo in itertools.product(*[doms.get(t, list(range(8))) for (_, t) in syms]):
        I = {n: v for (n, _), v in zip(syms, combo)}
        try:
            if all(Evaluator(I, {}).eval(c) for c in system):
                out.append(I)
        except Unconstrained:
            continue
    return out


def cost_value(cost, spec):
    """Python value of a returned cost constant, signed if the goal is signed."""
    kind, terms, signed = spec
    if cost.is_bv_constant():
        return cost.bv_signed_value() if signed else cost.bv_unsigned_value()
    return cost.constant_value()


def model_interp(env, model):
    I = {}
    for (n, t) in VARS:
        s = pys.build(env, sym(n, t))
        v = model.get_value(s)
        I[n] = v.constant_value()
    return I


def check_case(run, system, specs, routine, strategy, kind, reverse, user_levels, reuse=False, failing_first=0, take=None):
    env = Environment()
    case = {"system": system, "goals": specs, "routine": routine, "strategy": strategy, "mixin": kind,
            "reverse": reverse, "user_levels": user_levels, "reuse": reuse, "failing_first": failing_first, "take": take}
    models = all_models(system)
    with env:
        opt = make_optimizer(kind)(env, reverse=reverse)
        base = [pys.build(env, c) for c in system]
        # user levels: part of the system is asserted inside pushed levels
        cut = len(base) if user_levels == 0 else max(1, len(base) - user_levels)
        for f in base[:cut]:
            opt.add_assertion(f)
        rest = base[cut:]
        for j in range(user_levels):
            opt.push()
            if j < len(rest):
                opt.add_assertion(rest[j])
        for f in rest[user_levels:]:
            opt.add_assertion(f)
        before = list(opt.assertions)
        depth = len(opt.backend)
        goals = [build_goal(env, s, strategy) for s in specs]
        nontriv = False
        if failing_first:
            # (only when driven by C15) optimisation calls that fail come first: an unknown strategy, a goal the backend
            # gives up on.  They must leave the optimiser as it was (the checks below compare the assertion stack and the
            # optimum as usual)
            from pysmt.optimization.goal import MinimizationGoal, MaximizationGoal
            mgr_ = env.formula_manager
            wide = mgr_.Symbol("wide8", env.type_manager.BVType(8))
            bads = [lambda: opt.optimize(goals[0], strategy="no-such-strategy"),
                    lambda: opt.optimize(MinimizationGoal(wide), strategy=strategy),
                    lambda: opt.lexicographic_optimize([goals[0], MaximizationGoal(wide)], strategy="no-such-strategy"),
                    lambda: opt.boxed_optimize([MaximizationGoal(wide), goals[0]], strategy=strategy)]
            for k_ in range(len(bads)):
                if failing_first >> k_ & 1:
                    try:
                        with_timeout(20, bads[k_])
                    except (BackendError, Timeout):
                        raise
                    except Exception:
                        run.cls("failing-optimisation-call-first")
        try:
            if reuse:
                # goal objects are used twice: first with the routine as it is (result dropped); MaxSMT goals then
                # receive their remaining soft clauses (built with a prefix first)
                def first():
                    pre = []
                    for s0 in specs:
                        if s0[0] == "maxsmt" and len(s0[1]) >= 2:
                            pre.append(build_goal(env, ("maxsmt", s0[1][:len(s0[1]) // 2], s0[2]), strategy,
                                                  real=any(isinstance(w, Fraction) for (_, w) in s0[1])))
                        else:
                            pre.append(build_goal(env, s0, strategy))
                    if routine == "optimize":
                        opt.optimize(pre[0], strategy=strategy)
                    elif routine == "boxed":
                        opt.boxed_optimize(pre, strategy=strategy)
                    elif routine == "lexicographic":
                        opt.lexicographic_optimize(pre, strategy=strategy)
                    else:
                        list(itertools.islice(opt.pareto_optimize(pre), 0, 200))
                    mgr = env.formula_manager
                    for j, s0 in enumerate(specs):
                        if s0[0] == "maxsmt" and len(s0[1]) >= 2:
                            real = any(isinstance(w, Fraction) for (_, w) in s0[1])
                            for (c, w) in s0[1][len(s0[1]) // 2:]:
                                pre[j].add_soft_clause(pys.build(env, c), mgr.Real(w) if real else mgr.Int(w))
                    return pre
                goals = with_timeout(20, first)
                run.cls("goal-objects-reused")

            def call():
                if routine == "optimize":
                    return opt.optimize(goals[0], strategy=strategy)
                if routine == "boxed":
                    return opt.boxed_optimize(goals, strategy=strategy)
                if routine == "lexicographic":
                    return opt.lexicographic_optimize(goals, strategy=strategy)
                if take is None:
                    return list(itertools.islice(opt.pareto_optimize(goals), 0, 200))
                # the caller wants a few points of the front only and ends the enumeration there
                it = opt.pareto_optimize(goals)
                try:
                    return list(itertools.islice(it, 0, take))
                finally:
                    it.close()
            res = with_timeout(20, call)
        except Timeout:
            run.discard("timeout:%s/%s" % (routine, strategy))
            return
        except BackendError as e:
            run.fail({"subcheck": "opt:illegal-pop", "routine": routine, "mixin": kind}, case, "illegal pop: %s" % e)
            return
        except Exception as e:
            run.fail({"subcheck": "opt:raised", "routine": routine, "exc": type(e).__name__}, case,
                     "%s/%s/%s raised %s: %s\n goals=%r" % (routine, strategy, kind, type(e).__name__, str(e)[:300], specs))
            return

        def judge_model(model, what):
            I = model_interp(env, model)
            if I not in models:
                run.fail({"subcheck": "opt:model-violates-assertions", "routine": routine}, case,
                         "%s: the returned model %r does not satisfy the assertions" % (what, I))
                return None
            return I
        if routine in ("optimize", "boxed"):
            items = [(specs[0], res)] if routine == "optimize" else \
                ([(s, res.get(g)) for s, g in zip(specs, goals)] if res is not None else [(s, None) for s in specs])
            for spec, r in items:
                if not models:
                    if r is not None and (routine == "optimize" or res is not None):
                        run.fail({"subcheck": "opt:solution-for-unsat", "routine": routine}, case, "unsatisfiable system, got %r" % (r,))
                    continue
                if r is None:
                    run.fail({"subcheck": "opt:none-for-sat", "routine": routine, "strategy": strategy}, case,
                             "%s/%s/%s reports no solution for a satisfiable system\n goal=%r" % (routine, strategy, kind, spec))
                    continue
                model, cost = r
                I = judge_model(model, routine)
                if I is None:
                    continue
                best = min(objective(spec, J)[0] for J in models)
                vals = {objective(spec, J)[0] for J in models}
                nontriv = nontriv or len(vals) >= 2
                got = objective(spec, I)
                cv = cost_value(cost, spec)
                if got[0] != best or cv != got[1]:
                    run.fail({"subcheck": "opt:not-optimal", "routine": routine, "strategy": strategy, "goal": spec[0],
                              "signed": spec[2]}, case,
                             "%s/%s/%s goal %s%s: returned cost %r (model gives %r), the optimum is %r\n goal=%r\n model=%r" % (
                                 routine, strategy, kind, spec[0], " signed" if spec[2] else "", cv, got[1],
                                 [objective(spec, J)[1] for J in models if objective(spec, J)[0] == best][0], spec, I))
        elif routine == "lexicographic":
            if not models:
                if res is not None:
                    run.fail({"subcheck": "opt:solution-for-unsat", "routine": routine}, case, "unsatisfiable system, got %r" % (res,))
            elif res is None:
                run.fail({"subcheck": "opt:none-for-sat", "routine": routine, "strategy": strategy}, case,
                         "lexicographic/%s/%s reports no solution for a satisfiable system" % (strategy, kind))
            else:
                model, costs = res
                I = judge_model(model, routine)
                cur = models
                want = []
                for spec in specs:
                    b = min(objective(spec, J)[0] for J in cur)
                    cur = [J for J in cur if objective(spec, J)[0] == b]
                    want.append(objective(spec, cur[0])[1])
                nontriv = len({tuple(objective(s, J)[0] for s in specs) for J in models}) >= 2
                got = [cost_value(c, s) for c, s in zip(costs, specs)]
                if got != want or (I is not None and [objective(s, I)[1] for s in specs] != want):
                    run.fail({"subcheck": "opt:not-lexicographic-optimum", "strategy": strategy, "mixin": kind}, case,
                             "lexicographic/%s/%s returned %r, the lexicographic optimum is %r\n goals=%r" % (
                                 strategy, kind, got, want, specs))
        else:
            vecs = {tuple(objective(s, J)[0] for s in specs) for J in models}
            front = {v for v in vecs if not any(u != v and all(a <= b for a, b in zip(u, v)) for u in vecs)}
            nontriv = len(front) >= 2
            got = []
            for (model, costs) in res:
                I = judge_model(model, "pareto")
                if I is None:
                    continue
                got.append(tuple(objective(s, I)[0] for s in specs))
                cv = [cost_value(c, s) for c, s in zip(costs, specs)]
                if cv != [objective(s, I)[1] for s in specs]:
                    run.fail({"subcheck": "opt:pareto-cost-mismatch"}, case, "costs %r vs model %r" % (cv, I))
            if take is not None:
                run.cls("pareto-enumeration-ended-early")
                if not set(got) <= front or len(got) != len(set(got)) or len(got) != min(take, len(front)):
                    run.fail({"subcheck": "opt:pareto-front", "mixin": kind, "early": True}, case,
                             "pareto/%s: the first %d points are %r, the Pareto front is %r\n goals=%r" % (
                                 kind, take, sorted(got), sorted(front), specs))
            elif set(got) != front or len(got) != len(set(got)):
                run.fail({"subcheck": "opt:pareto-front", "mixin": kind}, case,
                         "pareto/%s returned the points %r, the Pareto front is %r (smaller is better, maximisation negated)\n goals=%r" % (
                             kind, sorted(got), sorted(front), specs))
        # ---- the solver is left as it was found
        try:
            after = list(opt.assertions)
            if after != before or len(opt.backend) != depth:
                run.fail({"subcheck": "opt:stack-not-restored", "routine": routine, "mixin": kind}, case,
                         "%s/%s/%s: %d assertions / backend depth %d before, %d / %d after" % (
                             routine, strategy, kind, len(before), depth - 1, len(after), len(opt.backend) - 1))
            else:
                for j in range(user_levels):
                    opt.pop()
                if len(opt.backend) != depth - user_levels or list(opt.assertions) != base[:cut]:
                    run.fail({"subcheck": "opt:user-pop-wrong-level", "routine": routine, "mixin": kind}, case,
                             "after %s the user's pop does not remove the user's level" % routine)
        except BackendError as e:
            run.fail({"subcheck": "opt:stack-not-restored", "routine": routine, "mixin": kind}, case, "illegal pop afterwards: %s" % e)
    run.case(key=(system, specs, routine, strategy, kind, reverse, user_levels, reuse, take), nontrivial=nontriv,
             sample={"routine": routine, "strategy": strategy, "mixin": kind, "goals": [s[0] for s in specs],
                     "models": len(models)} if nontriv and len(specs) > 1 else None)
    run.cls("routine:" + routine)
    run.cls("strategy:" + strategy)
    run.cls("mixin:" + kind)
    if not models:
        run.cls("unsat-system")
    if user_levels:
        run.cls("inside-user-push")
    for s in specs:
        run.cls("goal:" + s[0] + ("-signed" if s[2] else ""))


def random_case(run, rnd, failing_first=0):
    """One generated optimisation case (used by C18, and by C15 with failing calls in front)."""
    if True:
        g, system = gen_system(rnd)
        routine = rnd.choice(["optimize", "optimize", "boxed", "lexicographic", "pareto"])
        strategy = rnd.choice(["linear", "binary"]) if routine != "pareto" else "linear"
        kind = rnd.choice(["sua", "incr"])
        allow_ms = routine in ("optimize", "boxed")
        ng = 1 if routine == "optimize" else rnd.randint(2, 3) if routine != "pareto" else 2
        specs = tuple(gen_goal_spec(g, rnd, allow_ms, strategy) for _ in range(ng))
        if routine in ("boxed", "pareto", "lexicographic") and specs[0][0] in ("min", "max") and rnd.random() < 0.3:
            # the "bounding box" use: the same term minimised and maximised
            flip = ("max" if specs[0][0] == "min" else "min", specs[0][1], specs[0][2])
            specs = (specs[0], flip) + specs[2:]
        check_case(run, tuple(system), specs, routine, strategy, kind, rnd.random() < 0.5, rnd.choice([0, 0, 1, 2]),
                   reuse=rnd.random() < 0.3, failing_first=failing_first,
                   take=rnd.choice([1, 1, 2]) if routine == "pareto" and rnd.random() < 0.35 else None)


def shard(shard, seed, n):
    run = Run(PID)

    def body(rnd):
        random_case(run, rnd)
    drive(body, st.randoms(use_true_random=True), n, derive_seed(seed, "c18", shard))
    return run


def main():
    chk = Check(PID, "exploration", RULE, assumptions=[
        "the satisfiability oracle is the exhaustive enumerator vf/brute.py (Int symbols range over a window that the "
        "systems also assert); optima are computed by enumerating every model with vf/refsem.py",
        "bisection over rational MaxSMT weights is documented as possibly non-terminating and is not generated",
        "a routine exceeding 20 s is inconclusive (counted), never a violation"])
    thorough = chk.tier == "thorough"
    jobs = [(shard, dict(shard=s, seed=chk.seed, n=2500 if thorough else 110)) for s in range(16)]
    chk.add(run_shards(jobs))
    chk.exhaustive.append("every model of each generated system (optimum, lexicographic optimum, Pareto front by enumeration)")
    for c in ("routine:optimize", "routine:boxed", "routine:lexicographic", "routine:pareto", "strategy:binary",
              "mixin:sua", "mixin:incr", "inside-user-push", "goal:maxsmt", "goal:min-signed", "goal:minmax", "unsat-system"):
        chk.floor(c, 60)
    chk.floor("pareto-enumeration-ended-early", 30)
    return chk.finish()


def replay(rec):
    run = Run(PID, known=[])
    c = rec["case"]
    check_case(run, tuple(c["system"]), tuple(tuple(s) for s in c["goals"]), c["routine"], c["strategy"], c["mixin"],
               c["reverse"], c["user_levels"], reuse=c.get("reuse", False), take=c.get("take"))
    if run.violations:
        print("VIOLATION property=%s replay=(replayed)" % PID)
        print(run.violations[0]["detail"])
        return 1
    print("replay: no violation")
    return 0
