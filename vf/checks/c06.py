"""C06 - derived constructors and infix operators denote what their names say."""
import itertools
import warnings
from fractions import Fraction

from hypothesis import strategies as st

from pysmt.environment import Environment
import pysmt.shortcuts as sc

from vf import bp as B
from vf.bp import BOOL, INT, REAL, STRING, BV, ARR, FUN, is_bv, sym, show
from vf.refsem import (Evaluator, reftype, Unconstrained, IllTyped, ArrV, FunV, bv_smod, bv_udiv, bv_urem,
                       int_div, _signed)
from vf.gen import INTS, REALS
from vf.harness import Run, Check, run_shards, drive, derive_seed
from vf import pys

warnings.filterwarnings("ignore", message=".*Division by 0.*")

PID = "C06"
RULE = ("table of derived constructors / infix operators / FNode methods x arities x widths, built over symbols; "
        "the decoded formula is evaluated by the reference evaluator at every argument tuple (Bool and BV widths "
        "1..W exhaustively; Int/Real at Hypothesis-drawn tuples incl. negatives, huge values, rationals) and "
        "compared with a direct Python definition of the named function. non-trivial = every form instance; "
        "distinct by (form, arity, sorts)")


class Skip(Exception):
    pass


def S(u, w):
    return _signed(u, w)


def M(w):
    return 1 << w


# Each form: (name, [arg types], build(mgr, args) -> FNode, pydef(*vals) -> value, result type)
def forms(wmax):
    F = []

    def add(name, tys, build, pydef, rty):
        F.append((name, tuple(tys), build, pydef, rty))

    for T, zero in ((INT, 0), (REAL, Fraction(0))):
        add("GE", [T, T], lambda m, a: m.GE(a[0], a[1]), lambda x, y: x >= y, BOOL)
        add("GT", [T, T], lambda m, a: m.GT(a[0], a[1]), lambda x, y: x > y, BOOL)
        add("NotEquals", [T, T], lambda m, a: m.NotEquals(a[0], a[1]), lambda x, y: x != y, BOOL)
        add("EqualsOrIff", [T, T], lambda m, a: m.EqualsOrIff(a[0], a[1]), lambda x, y: x == y, BOOL)
        add("Abs", [T], lambda m, a: sc.Abs(a[0]), lambda x: abs(x), T)
        for n in range(1, 6):
            add("Min/%d" % n, [T] * n, lambda m, a: m.Min(*a), lambda *v: min(v), T)
            add("Max/%d" % n, [T] * n, lambda m, a: m.Max(*a), lambda *v: max(v), T)
            add("Min[list]/%d" % n, [T] * n, lambda m, a: m.Min(list(a)), lambda *v: min(v), T)
            add("sc.Max/%d" % n, [T] * n, lambda m, a: sc.Max(*a), lambda *v: max(v), T)
        # infix
        add("a+b", [T, T], lambda m, a: a[0] + a[1], lambda x, y: x + y, T)
        add("a-b", [T, T], lambda m, a: a[0] - a[1], lambda x, y: x - y, T)
        add("a*b", [T, T], lambda m, a: a[0] * a[1], lambda x, y: x * y, T)
        add("-a", [T], lambda m, a: -a[0], lambda x: -x, T)
        add("a<b", [T, T], lambda m, a: a[0] < a[1], lambda x, y: x < y, BOOL)
        add("a<=b", [T, T], lambda m, a: a[0] <= a[1], lambda x, y: x <= y, BOOL)
        add("a>b", [T, T], lambda m, a: a[0] > a[1], lambda x, y: x > y, BOOL)
        add("a>=b", [T, T], lambda m, a: a[0] >= a[1], lambda x, y: x >= y, BOOL)
        add("a.Equals(b)", [T, T], lambda m, a: a[0].Equals(a[1]), lambda x, y: x == y, BOOL)
        add("a.NotEquals(b)", [T, T], lambda m, a: a[0].NotEquals(a[1]), lambda x, y: x != y, BOOL)
        for c in ([3, -2, 0, 2 ** 70] if T == INT else [3, -2, Fraction(1, 2), 0.5, 0, 0.1, 2.675, 1e-05]):
            cv = Fraction(c) if T == REAL else c
            add("a+%r" % c, [T], lambda m, a, c=c: a[0] + c, lambda x, cv=cv: x + cv, T)
            add("%r+a" % c, [T], lambda m, a, c=c: c + a[0], lambda x, cv=cv: cv + x, T)
            add("a-%r" % c, [T], lambda m, a, c=c: a[0] - c, lambda x, cv=cv: x - cv, T)
            add("%r-a" % c, [T], lambda m, a, c=c: c - a[0], lambda x, cv=cv: cv - x, T)
            add("a*%r" % c, [T], lambda m, a, c=c: a[0] * c, lambda x, cv=cv: x * cv, T)
            add("%r*a" % c, [T], lambda m, a, c=c: c * a[0], lambda x, cv=cv: cv * x, T)
            add("a<%r" % c, [T], lambda m, a, c=c: a[0] < c, lambda x, cv=cv: x < cv, BOOL)
            add("%r<a" % c, [T], lambda m, a, c=c: c < a[0], lambda x, cv=cv: cv < x, BOOL)
            add("a>=%r" % c, [T], lambda m, a, c=c: a[0] >= c, lambda x, cv=cv: x >= cv, BOOL)
            add("%r>=a" % c, [T], lambda m, a, c=c: c >= a[0], lambda x, cv=cv: cv >= x, BOOL)
            add("a.Equals(%r)" % c, [T], lambda m, a, c=c: a[0].Equals(c), lambda x, cv=cv: x == cv, BOOL)
    add("int a/b", [INT, INT], lambda m, a: a[0] / a[1], lambda x, y: int_div(x, y), INT)
    add("int a/3", [INT], lambda m, a: a[0] / 3, lambda x: int_div(x, 3), INT)
    add("int a/-3", [INT], lambda m, a: a[0] / -3, lambda x: int_div(x, -3), INT)
    add("real a/b", [REAL, REAL], lambda m, a: a[0] / a[1], lambda x, y: _rdiv(x, y), REAL)
    add("real a/4", [REAL], lambda m, a: a[0] / 4, lambda x: x / 4, REAL)
    add("real Div(a, 2/3)", [REAL], lambda m, a: m.Div(a[0], m.Real(Fraction(2, 3))), lambda x: x / Fraction(2, 3), REAL)
    add("ToReal(a)", [INT], lambda m, a: m.ToReal(a[0]), lambda x: Fraction(x), REAL)

    # Boolean
    add("Xor", [BOOL, BOOL], lambda m, a: m.Xor(a[0], a[1]), lambda x, y: x != y, BOOL)
    add("sc.Xor", [BOOL, BOOL], lambda m, a: sc.Xor(a[0], a[1]), lambda x, y: x != y, BOOL)
    add("EqualsOrIff", [BOOL, BOOL], lambda m, a: m.EqualsOrIff(a[0], a[1]), lambda x, y: x == y, BOOL)
    add("a&b", [BOOL, BOOL], lambda m, a: a[0] & a[1], lambda x, y: x and y, BOOL)
    add("a|b", [BOOL, BOOL], lambda m, a: a[0] | a[1], lambda x, y: x or y, BOOL)
    add("a^b", [BOOL, BOOL], lambda m, a: a[0] ^ a[1], lambda x, y: x != y, BOOL)
    add("~a", [BOOL], lambda m, a: ~a[0], lambda x: not x, BOOL)
    add("True&a", [BOOL], lambda m, a: True & a[0], lambda x: x, BOOL)
    add("a|False", [BOOL], lambda m, a: a[0] | False, lambda x: x, BOOL)
    add("True^a", [BOOL], lambda m, a: True ^ a[0], lambda x: not x, BOOL)
    add("a.Implies(b)", [BOOL, BOOL], lambda m, a: a[0].Implies(a[1]), lambda x, y: (not x) or y, BOOL)
    add("a.Iff(b)", [BOOL, BOOL], lambda m, a: a[0].Iff(a[1]), lambda x, y: x == y, BOOL)
    add("a.And(b)", [BOOL, BOOL], lambda m, a: a[0].And(a[1]), lambda x, y: x and y, BOOL)
    add("a.Or(b)", [BOOL, BOOL], lambda m, a: a[0].Or(a[1]), lambda x, y: x or y, BOOL)
    add("a.Implies(False)", [BOOL], lambda m, a: a[0].Implies(False), lambda x: not x, BOOL)
    add("c.Ite(t,e) bool", [BOOL, BOOL, BOOL], lambda m, a: a[0].Ite(a[1], a[2]), lambda c, t, e: t if c else e, BOOL)
    add("c.Ite(t,e) int", [BOOL, INT, INT], lambda m, a: a[0].Ite(a[1], a[2]), lambda c, t, e: t if c else e, INT)
    for n in range(0, 6):
        add("AtMostOne/%d" % n, [BOOL] * n, lambda m, a: m.AtMostOne(*a), lambda *v: sum(v) <= 1, BOOL)
        add("AtMostOne[list]/%d" % n, [BOOL] * n, lambda m, a: m.AtMostOne(list(a)), lambda *v: sum(v) <= 1, BOOL)
        add("ExactlyOne/%d" % n, [BOOL] * n, lambda m, a: m.ExactlyOne(*a), lambda *v: sum(v) == 1, BOOL)
        add("ExactlyOne[gen]/%d" % n, [BOOL] * n, lambda m, a: m.ExactlyOne(x for x in a), lambda *v: sum(v) == 1, BOOL)
        add("sc.ExactlyOne/%d" % n, [BOOL] * n, lambda m, a: sc.ExactlyOne(*a), lambda *v: sum(v) == 1, BOOL)
        add("sc.AtMostOne/%d" % n, [BOOL] * n, lambda m, a: sc.AtMostOne(*a), lambda *v: sum(v) <= 1, BOOL)
    for n in range(0, 5):
        for T in (BOOL, INT, BV(2), BV(1)):
            add("AllDifferent/%d" % n, [T] * n, lambda m, a: m.AllDifferent(*a),
                lambda *v: len(set(v)) == len(v), BOOL)
            add("AllDifferent[list]/%d" % n, [T] * n, lambda m, a: m.AllDifferent(list(a)),
                lambda *v: len(set(v)) == len(v), BOOL)

    # Bit-vectors
    for w in range(1, wmax + 1):
        T = BV(w)
        MM = M(w)
        add("EqualsOrIff", [T, T], lambda m, a: m.EqualsOrIff(a[0], a[1]), lambda x, y: x == y, BOOL)
        add("NotEquals", [T, T], lambda m, a: m.NotEquals(a[0], a[1]), lambda x, y: x != y, BOOL)
        add("BVSMod", [T, T], lambda m, a: m.BVSMod(a[0], a[1]), lambda x, y, w=w: bv_smod(x, y, w), T)
        add("a.BVSMod(b)", [T, T], lambda m, a: a[0].BVSMod(a[1]), lambda x, y, w=w: bv_smod(x, y, w), T)
        add("BVNand", [T, T], lambda m, a: m.BVNand(a[0], a[1]), lambda x, y, MM=MM: (MM - 1) ^ (x & y), T)
        add("BVNor", [T, T], lambda m, a: m.BVNor(a[0], a[1]), lambda x, y, MM=MM: (MM - 1) ^ (x | y), T)
        add("BVXnor", [T, T], lambda m, a: m.BVXnor(a[0], a[1]), lambda x, y, MM=MM: (MM - 1) ^ (x ^ y), T)
        add("a.BVNand(b)", [T, T], lambda m, a: a[0].BVNand(a[1]), lambda x, y, MM=MM: (MM - 1) ^ (x & y), T)
        add("a.BVNor(b)", [T, T], lambda m, a: a[0].BVNor(a[1]), lambda x, y, MM=MM: (MM - 1) ^ (x | y), T)
        add("a.BVXnor(b)", [T, T], lambda m, a: a[0].BVXnor(a[1]), lambda x, y, MM=MM: (MM - 1) ^ (x ^ y), T)
        add("BVUGT", [T, T], lambda m, a: m.BVUGT(a[0], a[1]), lambda x, y: x > y, BOOL)
        add("BVUGE", [T, T], lambda m, a: m.BVUGE(a[0], a[1]), lambda x, y: x >= y, BOOL)
        add("BVSGT", [T, T], lambda m, a: m.BVSGT(a[0], a[1]), lambda x, y, w=w: S(x, w) > S(y, w), BOOL)
        add("BVSGE", [T, T], lambda m, a: m.BVSGE(a[0], a[1]), lambda x, y, w=w: S(x, w) >= S(y, w), BOOL)
        add("a.BVUGT(b)", [T, T], lambda m, a: a[0].BVUGT(a[1]), lambda x, y: x > y, BOOL)
        add("a.BVUGE(b)", [T, T], lambda m, a: a[0].BVUGE(a[1]), lambda x, y: x >= y, BOOL)
        add("a.BVSGT(b)", [T, T], lambda m, a: a[0].BVSGT(a[1]), lambda x, y, w=w: S(x, w) > S(y, w), BOOL)
        add("a.BVSGE(b)", [T, T], lambda m, a: a[0].BVSGE(a[1]), lambda x, y, w=w: S(x, w) >= S(y, w), BOOL)
        add("a.BVSLT(b)", [T, T], lambda m, a: a[0].BVSLT(a[1]), lambda x, y, w=w: S(x, w) < S(y, w), BOOL)
        add("a.BVSLE(b)", [T, T], lambda m, a: a[0].BVSLE(a[1]), lambda x, y, w=w: S(x, w) <= S(y, w), BOOL)
        add("a.BVULT(b)", [T, T], lambda m, a: a[0].BVULT(a[1]), lambda x, y: x < y, BOOL)
        add("a.BVULE(b)", [T, T], lambda m, a: a[0].BVULE(a[1]), lambda x, y: x <= y, BOOL)
        for k in (1, 2, 3):
            add("BVRepeat/%d" % k, [T], lambda m, a, k=k: m.BVRepeat(a[0], k),
                lambda x, k=k, w=w: sum(x << (i * w) for i in range(k)), BV(w * k))
            add("a.BVRepeat(%d)" % k, [T], lambda m, a, k=k: a[0].BVRepeat(k),
                lambda x, k=k, w=w: sum(x << (i * w) for i in range(k)), BV(w * k))
        for n in (1, 2, 3, 4) if w <= 2 else (1, 2, 3):
            add("BVAnd/%d" % n, [T] * n, lambda m, a: m.BVAnd(*a), lambda *v: _fold(v, lambda x, y: x & y), T)
            add("BVOr/%d" % n, [T] * n, lambda m, a: m.BVOr(*a), lambda *v: _fold(v, lambda x, y: x | y), T)
            add("BVAdd/%d" % n, [T] * n, lambda m, a: m.BVAdd(*a), lambda *v, MM=MM: sum(v) % MM, T)
            add("BVMul/%d" % n, [T] * n, lambda m, a: m.BVMul(*a), lambda *v, MM=MM: _fold(v, lambda x, y: x * y) % MM, T)
            add("BVAdd[list]/%d" % n, [T] * n, lambda m, a: m.BVAdd(list(a)), lambda *v, MM=MM: sum(v) % MM, T)
            if n >= 2:
                add("BVConcat/%d" % n, [T] * n, lambda m, a: m.BVConcat(*a),
                    lambda *v, w=w: _fold(v, lambda x, y: (x << w) | y), BV(w * n))
            add("MinBV(u)/%d" % n, [T] * n, lambda m, a: m.MinBV(False, *a), lambda *v: min(v), T)
            add("MaxBV(u)/%d" % n, [T] * n, lambda m, a: m.MaxBV(False, *a), lambda *v: max(v), T)
            add("MinBV(s)/%d" % n, [T] * n, lambda m, a: m.MinBV(True, *a),
                lambda *v, w=w: min(v, key=lambda x: S(x, w)), T)
            add("MaxBV(s)/%d" % n, [T] * n, lambda m, a: m.MaxBV(True, *a),
                lambda *v, w=w: max(v, key=lambda x: S(x, w)), T)
        if w >= 2:
            add("BVConcat mixed", [T, BV(1), BV(w - 1)], lambda m, a: m.BVConcat(a[0], a[1], a[2]),
                lambda x, y, z, w=w: (((x << 1) | y) << (w - 1)) | z, BV(2 * w))
            add("a.BVConcat(b)", [T, BV(1)], lambda m, a: a[0].BVConcat(a[1]), lambda x, y: (x << 1) | y, BV(w + 1))
        for k in range(0, min(MM, w + 3)):
            add("BVLShl int %d" % k, [T], lambda m, a, k=k: m.BVLShl(a[0], k),
                lambda x, k=k, w=w, MM=MM: 0 if k >= w else (x << k) % MM, T)
            add("BVLShr int %d" % k, [T], lambda m, a, k=k: m.BVLShr(a[0], k),
                lambda x, k=k, w=w: 0 if k >= w else x >> k, T)
            add("BVAShr int %d" % k, [T], lambda m, a, k=k: m.BVAShr(a[0], k),
                lambda x, k=k, w=w, MM=MM: (S(x, w) >> min(k, w)) % MM, T)
            add("a<<%d" % k, [T], lambda m, a, k=k: a[0] << k,
                lambda x, k=k, w=w, MM=MM: 0 if k >= w else (x << k) % MM, T)
            add("a>>%d" % k, [T], lambda m, a, k=k: a[0] >> k, lambda x, k=k, w=w: 0 if k >= w else x >> k, T)
            add("a.BVAShr(%d)" % k, [T], lambda m, a, k=k: a[0].BVAShr(k),
                lambda x, k=k, w=w, MM=MM: (S(x, w) >> min(k, w)) % MM, T)
            add("a+%d" % k, [T], lambda m, a, k=k: a[0] + k, lambda x, k=k, MM=MM: (x + k) % MM, T)
            add("%d+a" % k, [T], lambda m, a, k=k: k + a[0], lambda x, k=k, MM=MM: (x + k) % MM, T)
            add("a-%d" % k, [T], lambda m, a, k=k: a[0] - k, lambda x, k=k, MM=MM: (x - k) % MM, T)
            add("%d-a" % k, [T], lambda m, a, k=k: k - a[0], lambda x, k=k, MM=MM: (k - x) % MM, T)
            add("a*%d" % k, [T], lambda m, a, k=k: a[0] * k, lambda x, k=k, MM=MM: (x * k) % MM, T)
            add("%d*a" % k, [T], lambda m, a, k=k: k * a[0], lambda x, k=k, MM=MM: (x * k) % MM, T)
            add("a&%d" % k, [T], lambda m, a, k=k: a[0] & k, lambda x, k=k: x & k, T)
            add("%d|a" % k, [T], lambda m, a, k=k: k | a[0], lambda x, k=k: x | k, T)
            add("%d^a" % k, [T], lambda m, a, k=k: k ^ a[0], lambda x, k=k: x ^ k, T)
            add("a<%d" % k, [T], lambda m, a, k=k: a[0] < k, lambda x, k=k: x < k, BOOL)
            add("%d<a" % k, [T], lambda m, a, k=k: k < a[0], lambda x, k=k: k < x, BOOL)
            add("a>=%d" % k, [T], lambda m, a, k=k: a[0] >= k, lambda x, k=k: x >= k, BOOL)
            add("a/%d" % k, [T], lambda m, a, k=k: a[0] / k, lambda x, k=k, w=w: bv_udiv(x, k, w), T)
            add("a%%%d" % k, [T], lambda m, a, k=k: a[0] % k, lambda x, k=k, w=w: bv_urem(x, k, w), T)
            add("a.Equals(%d)" % k, [T], lambda m, a, k=k: a[0].Equals(k), lambda x, k=k: x == k, BOOL)
        add("BVOne", [], lambda m, a, w=w: m.BVOne(w), lambda MM=MM: 1 % MM, T)
        add("BVZero", [], lambda m, a, w=w: m.BVZero(w), lambda: 0, T)
        add("a+b", [T, T], lambda m, a: a[0] + a[1], lambda x, y, MM=MM: (x + y) % MM, T)
        add("a-b", [T, T], lambda m, a: a[0] - a[1], lambda x, y, MM=MM: (x - y) % MM, T)
        add("a*b", [T, T], lambda m, a: a[0] * a[1], lambda x, y, MM=MM: (x * y) % MM, T)
        add("a/b", [T, T], lambda m, a: a[0] / a[1], lambda x, y, w=w: bv_udiv(x, y, w), T)
        add("a%b", [T, T], lambda m, a: a[0] % a[1], lambda x, y, w=w: bv_urem(x, y, w), T)
        add("a<<b", [T, T], lambda m, a: a[0] << a[1], lambda x, y, w=w, MM=MM: 0 if y >= w else (x << y) % MM, T)
        add("a>>b", [T, T], lambda m, a: a[0] >> a[1], lambda x, y, w=w: 0 if y >= w else x >> y, T)
        add("a&b", [T, T], lambda m, a: a[0] & a[1], lambda x, y: x & y, T)
        add("a|b", [T, T], lambda m, a: a[0] | a[1], lambda x, y: x | y, T)
        add("a^b", [T, T], lambda m, a: a[0] ^ a[1], lambda x, y: x ^ y, T)
        add("~a", [T], lambda m, a: ~a[0], lambda x, MM=MM: MM - 1 - x, T)
        add("-a", [T], lambda m, a: -a[0], lambda x, MM=MM: (-x) % MM, T)
        add("a<b", [T, T], lambda m, a: a[0] < a[1], lambda x, y: x < y, BOOL)
        add("a<=b", [T, T], lambda m, a: a[0] <= a[1], lambda x, y: x <= y, BOOL)
        add("a>b", [T, T], lambda m, a: a[0] > a[1], lambda x, y: x > y, BOOL)
        add("a>=b", [T, T], lambda m, a: a[0] >= a[1], lambda x, y: x >= y, BOOL)
        for meth, fn in (("BVAdd", lambda x, y, w: (x + y) % M(w)), ("BVSub", lambda x, y, w: (x - y) % M(w)),
                         ("BVMul", lambda x, y, w: (x * y) % M(w)), ("BVAnd", lambda x, y, w: x & y),
                         ("BVOr", lambda x, y, w: x | y), ("BVXor", lambda x, y, w: x ^ y),
                         ("BVUDiv", bv_udiv), ("BVURem", bv_urem),
                         ("BVLShl", lambda x, y, w: 0 if y >= w else (x << y) % M(w)),
                         ("BVLShr", lambda x, y, w: 0 if y >= w else x >> y),
                         ("BVAShr", lambda x, y, w: (S(x, w) >> min(y, w)) % M(w)),
                         ("BVComp", None)):
            if fn is None:
                add("a.BVComp(b)", [T, T], lambda m, a: a[0].BVComp(a[1]), lambda x, y: 1 if x == y else 0, BV(1))
            else:
                add("a.%s(b)" % meth, [T, T], lambda m, a, meth=meth: getattr(a[0], meth)(a[1]),
                    lambda x, y, fn=fn, w=w: fn(x, y, w), T)
        from vf.refsem import bv_sdiv, bv_srem
        add("a.BVSDiv(b)", [T, T], lambda m, a: a[0].BVSDiv(a[1]), lambda x, y, w=w: bv_sdiv(x, y, w), T)
        add("a.BVSRem(b)", [T, T], lambda m, a: a[0].BVSRem(a[1]), lambda x, y, w=w: bv_srem(x, y, w), T)
        for i in range(w):
            add("a[%d]" % i, [T], lambda m, a, i=i: a[0][i], lambda x, i=i: (x >> i) & 1, BV(1))
            for j in range(i, w):
                add("a[%d:%d]" % (i, j), [T], lambda m, a, i=i, j=j: a[0][i:j],
                    lambda x, i=i, j=j: (x >> i) % (1 << (j - i + 1)), BV(j - i + 1))
                add("a.BVExtract(%d,%d)" % (i, j), [T], lambda m, a, i=i, j=j: a[0].BVExtract(i, j),
                    lambda x, i=i, j=j: (x >> i) % (1 << (j - i + 1)), BV(j - i + 1))
            add("a[:%d]" % i, [T], lambda m, a, i=i: a[0][:i], lambda x, i=i: x % (1 << (i + 1)), BV(i + 1))
            add("BVExtract(a,%d)" % i, [T], lambda m, a, i=i: m.BVExtract(a[0], i), lambda x, i=i: x >> i, BV(w - i))
        for k in range(0, w + 1):
            add("a.BVRol(%d)" % k, [T], lambda m, a, k=k: a[0].BVRol(k),
                lambda x, k=k, w=w, MM=MM: ((x << (k % w)) | (x >> (w - k % w))) % MM, T)
            add("a.BVRor(%d)" % k, [T], lambda m, a, k=k: a[0].BVRor(k),
                lambda x, k=k, w=w, MM=MM: ((x >> (k % w)) | (x << (w - k % w))) % MM, T)
        for k in range(0, 3):
            add("a.BVZExt(%d)" % k, [T], lambda m, a, k=k: a[0].BVZExt(k), lambda x: x, BV(w + k))
            add("a.BVSExt(%d)" % k, [T], lambda m, a, k=k: a[0].BVSExt(k),
                lambda x, k=k, w=w: S(x, w) % (1 << (w + k)), BV(w + k))
        # signed constants: whole signed range
        for v in range(-(MM >> 1), MM >> 1):
            add("SBV(%d,%d)" % (v, w), [], lambda m, a, v=v, w=w: m.SBV(v, w), lambda v=v, MM=MM: v % MM, T)
            add("sc.SBV(%d,%d)" % (v, w), [], lambda m, a, v=v, w=w: sc.SBV(v, w), lambda v=v, MM=MM: v % MM, T)
        for v in range(0, MM):
            add("BV(%d,%d)" % (v, w), [], lambda m, a, v=v, w=w: m.BV(v, w), lambda v=v: v, T)
            add("BV(str %d,%d)" % (v, w), [], lambda m, a, v=v, w=w: m.BV(format(v, "0%db" % w)), lambda v=v: v, T)
            add("BV(#b %d,%d)" % (v, w), [], lambda m, a, v=v, w=w: m.BV("#b" + format(v, "0%db" % w)),
                lambda v=v: v, T)
    # arrays and function call syntax
    AT = ARR(INT, INT)
    add("arr.Select(i)", [AT, INT], lambda m, a: a[0].Select(a[1]), lambda arr, i: arr.get(i), INT)
    add("arr.Store(i,v).Select(j)", [AT, INT, INT, INT], lambda m, a: a[0].Store(a[1], a[2]).Select(a[3]),
        lambda arr, i, v, j: v if i == j else arr.get(j), INT)
    FT = FUN(INT, (INT, BOOL))
    add("f(a,b)", [FT, INT, BOOL], lambda m, a: a[0](a[1], a[2]), lambda f, x, y: f((x, y)), INT)
    add("f(3,True)", [FT], lambda m, a: a[0](3, True), lambda f: f((3, True)), INT)
    add("f(a,False)", [FT, INT], lambda m, a: a[0](a[1], False), lambda f, x: f((x, False)), INT)
    FB = FUN(BV(3), (BV(3), REAL))
    add("g(5,1/2)", [FB], lambda m, a: a[0](5, Fraction(1, 2)), lambda f: f((5, Fraction(1, 2))), BV(3))
    # the same formula object in several argument positions
    dup = []
    for (name, tys, build, pydef, rty) in F:
        n = len(tys)
        if n >= 2 and tys[0] == tys[1] and tys[0] in (BOOL, INT) or (n >= 2 and tys[0] == tys[1] and is_bv(tys[0]) and tys[0][1] <= 2):
            dup.append((name + " dup01", tys[1:], lambda m, a, build=build: build(m, [a[0]] + list(a)),
                        lambda *v, pydef=pydef: pydef(v[0], *v), rty))
            if n >= 3 and tys[2] == tys[0]:
                dup.append((name + " dup02", tys[1:], lambda m, a, build=build: build(m, [a[1]] + list(a)),
                            lambda *v, pydef=pydef: pydef(v[1], *v), rty))
    return F + dup


def must_raise_forms(wmax):
    """Out-of-range signed constants must be rejected."""
    out = []
    for w in range(1, wmax + 1):
        MM = M(w)
        for v in (-(MM >> 1) - 1, MM >> 1, MM, -MM):
            out.append(("SBV(%d,%d) out of range" % (v, w), lambda m, v=v, w=w: m.SBV(v, w)))
        out.append(("BV(%d,%d) out of range" % (MM, w), lambda m, MM=MM, w=w: m.BV(MM, w)))
        out.append(("BV(-1,%d)" % w, lambda m, w=w: m.BV(-1, w)))
    # a slice with a step has no bit-vector meaning (x[i:j] is an extract)
    def sliced(m):
        m.env.enable_infix_notation = True
        return m.Symbol("xs8", m.env.type_manager.BVType(8))[0:7:2]
    out.append(("x[0:7:2] slice with a step", sliced))
    return out


def _fold(v, f):
    r = v[0]
    for x in v[1:]:
        r = f(r, x)
    return r


def _rdiv(x, y):
    if y == 0:
        raise Unconstrained()
    return Fraction(x) / Fraction(y)


def small_domain(ty):
    if ty == BOOL:
        return [False, True]
    if is_bv(ty):
        return list(range(1 << ty[1]))
    return None


def sample_value(ty, rnd):
    if ty == INT:
        return rnd.choice(INTS) if rnd.random() < 0.4 else rnd.randint(-6, 6)
    if ty == REAL:
        return rnd.choice(REALS) if rnd.random() < 0.4 else Fraction(rnd.randint(-8, 8), rnd.randint(1, 4))
    if ty == BOOL:
        return rnd.random() < 0.5
    if is_bv(ty):
        return rnd.randrange(1 << ty[1])
    if ty[0] == "Array":
        return ArrV(sample_value(ty[2], rnd), {sample_value(ty[1], rnd): sample_value(ty[2], rnd) for _ in range(rnd.randint(0, 3))})
    if ty[0] == "Fun":
        return FunV([sample_value(ty[1], rnd) for _ in range(3)])
    raise ValueError(ty)


def shapes_for(ty):
    """Argument shapes: (name, blueprint maker(x, c), value function(v, cv)).  Derived constructors that look at
    the shape of their arguments (idempotence / sign shortcuts) must still denote the named function."""
    x0 = lambda x, c: x
    out = [("symbol", x0, lambda v, cv: v)]
    if ty in (INT, REAL):
        z = B.const(ty, Fraction(0) if ty == REAL else 0)
        neg = lambda x: ("MINUS", (), (z, x))
        out += [("ite-neg", lambda x, c: ("ITE", (), (c, x, neg(x))), lambda v, cv: v if cv else -v),
                ("abs-idiom", lambda x, c: ("ITE", (), (("LT", (), (z, x)), x, neg(x))), lambda v, cv: abs(v)),
                ("nabs-idiom", lambda x, c: ("ITE", (), (("LT", (), (x, z)), x, neg(x))), lambda v, cv: -abs(v)),
                ("zero-minus", lambda x, c: neg(x), lambda v, cv: -v)]
    elif is_bv(ty):
        Mw = 1 << ty[1]
        out += [("ite-neg", lambda x, c: ("ITE", (), (c, x, ("BV_NEG", (), (x,)))), lambda v, cv: v if cv else (-v) % Mw),
                ("not", lambda x, c: ("BV_NOT", (), (x,)), lambda v, cv: (Mw - 1) ^ v)]
    elif ty == BOOL:
        out += [("not", lambda x, c: ("NOT", (), (x,)), lambda v, cv: not v)]
    return out


def check_form_constants(run, form, rnd, npoints):
    """The same form applied directly to constants (constructors and infix operators fold constant operands)."""
    name, tys, build, pydef, rty = form
    if any(t[0] in ("Array", "Fun") for t in tys if isinstance(t, tuple)):
        return
    doms = [small_domain(t) for t in tys]
    if all(d is not None for d in doms):
        pts = list(itertools.product(*doms))
        if len(pts) > npoints:
            pts = [rnd.choice(pts) for _ in range(npoints)]
    else:
        pts = [tuple(sample_value(t, rnd) for t in tys) for _ in range(npoints)]
    env = Environment()
    env.enable_infix_notation = True
    n = 0
    with env:
        mgr = env.formula_manager
        for vals in pts:
            try:
                want = pydef(*vals)
            except Unconstrained:
                continue
            try:
                f = build(mgr, [pys.build_const(env, t, v) for t, v in zip(tys, vals)])
                got = Evaluator({}, {}).eval(pys.decode(f))
            except Unconstrained:
                continue
            except Exception as e:
                run.fail({"subcheck": "derived:raised-on-constants", "form": name.split("/")[0]},
                         {"form": name, "types": list(tys), "args": list(vals), "mode": "constants"},
                         "%s applied to the constants %r raised %s: %s" % (name, vals, type(e).__name__, e))
                break
            n += 1
            if got != want or (isinstance(want, bool) != isinstance(got, bool)):
                run.fail({"subcheck": "derived:value-on-constants", "form": name.split("/")[0].rstrip("0123456789-")},
                         {"form": name, "types": list(tys), "args": list(vals), "mode": "constants"},
                         "%s applied to the constants %r builds %s = %r, the named function gives %r" % (
                             name, vals, f, got, want))
                break
    if n:
        run.case(key=(name, tys, "constants"), nontrivial=True, n=n)
        run.cls("constant-operands-form")


def check_form(run, form, rnd, nsamples, shaped=False):
    name, tys, build, pydef, rty = form
    env = Environment()
    env.enable_infix_notation = True
    # shaped = k > 0: argument i takes its (k + i)-th shape (cyclically), so k = 1..4 covers every shape of every argument
    shp = [(lambda ss: ss[1 + (shaped - 1 + i) % (len(ss) - 1)] if shaped and len(ss) > 1 else ss[0])(shapes_for(t))
           for i, t in enumerate(tys)]
    if shaped:
        if all(s0[0] == "symbol" for s0 in shp):
            return
        pydef0 = pydef
        nt = len(tys)
        pydef = lambda *v: pydef0(*[shp[i][2](v[i], v[nt + i]) for i in range(nt)])
        name = name + "@" + ",".join(s0[0] for s0 in shp)
    with env:
        mgr = env.formula_manager
        args = [pys.build(env, shp[i][1](sym("x%d" % i, t), sym("c%d" % i, BOOL))) for i, t in enumerate(tys)]
        try:
            f = build(mgr, args)
        except Exception as e:
            run.fail({"subcheck": "derived:raised", "form": name.split("/")[0]},
                     {"form": name, "types": list(tys)}, "%s raised %s: %s" % (name, type(e).__name__, e))
            return
        b = pys.decode(f)
    key = (name, tys)
    try:
        t = reftype(b)
    except IllTyped as e:
        run.fail({"subcheck": "derived:illtyped", "form": name.split("/")[0]}, {"form": name, "types": list(tys)}, str(e))
        return
    if t != rty:
        run.fail({"subcheck": "derived:type", "form": name.split("/")[0]}, {"form": name, "types": list(tys)},
                 "%s has type %r expected %r" % (show(b), t, rty))
        return
    vtys = list(tys) + ([BOOL] * len(tys) if shaped else [])
    doms = [small_domain(t) for t in vtys]
    exhaustive = all(d is not None for d in doms)
    if exhaustive:
        tot = 1
        for d in doms:
            tot *= len(d)
        exhaustive = tot <= 4096
    if exhaustive:
        points = itertools.product(*doms)
    else:
        points = [tuple(sample_value(t, rnd) for t in vtys) for _ in range(nsamples)]
    n = 0
    for vals in points:
        I = {"x%d" % i: v for i, v in enumerate(vals[:len(tys)])}
        I.update({"c%d" % i: v for i, v in enumerate(vals[len(tys):])})
        try:
            want = pydef(*vals)
            got = Evaluator(I, {}).eval(b)
        except Unconstrained:
            run.discard("unconstrained")
            continue
        n += 1
        if got != want or (isinstance(want, bool) != isinstance(got, bool)):
            run.fail({"subcheck": "derived:value", "form": name.split("/")[0].rstrip("0123456789-")},
                     {"form": name, "types": list(tys), "args": list(vals)},
                     "%s over %r at %r: formula %s evaluates to %r, the named function gives %r" % (
                         name, tys, vals, show(b), got, want))
            break
    run.case(key=key, nontrivial=True, n=max(n, 1),
             sample={"form": name, "sorts": [B.tystr(t) for t in tys], "formula": show(b, 120)} if len(tys) == 2 else None)
    run.cls(("shaped-" if shaped else "") + ("exhaustive-form" if exhaustive else "sampled-form"))


def shard(shard, nshards, wmax, seed, nsamples):
    import random
    run = Run(PID)
    fs = forms(wmax)

    def body(rnd):
        for i, form in enumerate(fs):
            if i % nshards == shard:
                check_form(run, form, rnd, nsamples)
                for k in (1, 2, 3, 4):
                    check_form(run, form, rnd, max(50, nsamples // 10), shaped=k)
                check_form_constants(run, form, rnd, 24)
    drive(body, st.randoms(use_true_random=True), 1, derive_seed(seed, "c06", shard))
    if shard == 0:
        for name, fn in must_raise_forms(wmax):
            env = Environment()
            with env:
                try:
                    r = fn(env.formula_manager)
                except Exception:
                    run.case(key=name, nontrivial=True)
                    run.cls("rejected-out-of-range")
                    continue
                run.fail({"subcheck": "derived:accepted-out-of-range", "form": name.split("(")[0]}, {"form": name},
                         "%s returned %s instead of raising" % (name, r))
    return run


class _ShortcutsAsManager(object):
    """pysmt.shortcuts seen through the interface of a FormulaManager (names resolve to the module's functions)."""

    def __init__(self, env):
        self.env = env

    def __getattr__(self, name):
        return getattr(sc, name)


def _same_meaning(f1, f2, rnd, n=24):
    """True / False: the two formulas have / do not have the same value under n sampled interpretations of their
    symbols; None: not judged (sorts the sampler does not cover, no semantics)."""
    from vf.refsem import Evaluator, reffv, reftype, Unconstrained, NoSemantics
    try:
        b1, b2 = pys.decode(f1), pys.decode(f2)
        if reftype(b1) != reftype(b2):
            return False
        syms = sorted(reffv(b1) | reffv(b2), key=repr)
        for _ in range(n):
            I = {nm: sample_value(ty, rnd) for (nm, ty) in syms}
            if Evaluator(I, {}).eval(b1) != Evaluator(I, {}).eval(b2):
                return False
        return True
    except (Unconstrained, NoSemantics, ValueError, KeyError, TypeError):
        return None


def shard_shortcuts(shard, nshards):
    """Every constructor application of the C03 table (each public constructor x sort tuples x argument forms) made
    through the function of the same name in pysmt.shortcuts, while the environment is the current one: the very same
    object as through the manager, or a rejection on both sides."""
    from vf.checks import c03
    run = Run(PID)
    env = Environment()
    with env:
        mgr = env.formula_manager
        proxy = _ShortcutsAsManager(env)
        for idx, (name, ts, ps, build, expected, must_reject, form) in enumerate(
                (a + (fm,)) for a in c03.applications() for fm in c03.FORMS):
            if idx % nshards != shard or not hasattr(sc, name):
                continue
            if form != "symbol" and name in ("ForAll", "Exists"):
                continue
            args, cnt = [], {}
            for t in ts:
                k = cnt.get(t, 0)
                cnt[t] = k + 1
                args.append(c03.basis_term(env, t, k, form))
            outs = []
            for m in (mgr, proxy):
                try:
                    outs.append(("ok", build(m, args)))
                except RecursionError:
                    # (an ill-typed array value is rejected through a RecursionError: the message of the type error
                    #  prints the node, which asks for its type again; a rejection, but a slow one - not repeated)
                    outs.append(("raised", "RecursionError"))
                    break
                except Exception as e:
                    outs.append(("raised", type(e).__name__))
            if len(outs) == 1:
                run.cls("shortcut-skipped:slow-rejection")
                continue
            label = "%s%s(%s) args=%s" % (name, list(ps) if ps else "", ", ".join(B.tystr(t) for t in ts), form)
            run.case(key=("shortcut", label), nontrivial=outs[0][0] == "ok")
            run.cls("shortcut-vs-manager")
            same = (outs[0][0] == outs[1][0]) and (outs[0][0] == "raised" or outs[0][1] is outs[1][1])
            if not same and outs[0][0] == "raised":
                # the manager rejects what the shortcut accepts: an ill-typed formula would be C03's business
                run.cls("shortcut-accepts-what-the-manager-rejects")
                continue
            if not same and outs[0][0] == outs[1][0] == "ok":
                # another object: the property asks for the same MEANING - judged by evaluation
                import random as _random
                verdict = _same_meaning(outs[0][1], outs[1][1], _random.Random(idx))
                if verdict is not False:
                    run.cls("shortcut:other-object-same-meaning" if verdict else "shortcut:other-object-not-judged")
                    continue
            if not same:
                run.fail({"subcheck": "shortcut:differs-from-manager", "form": "shortcuts." + name},
                         {"form": "shortcuts." + name, "types": list(ts), "params": [str(p) for p in ps], "args": form},
                         "shortcuts.%s: %s, FormulaManager.%s: %s  [%s]" % (
                             name, c03.sstr(outs[1][1]), name, c03.sstr(outs[0][1]), label))
    return run


def main():
    chk = Check(PID, "exploration", RULE, assumptions=[
        "reference evaluator vf/refsem.py; the Python definitions in vf/checks/c06.py are the stated meaning of each name",
        "x[i:j] denotes bits i..j inclusive (FNode.__getitem__ passes start/end to BVExtract)"])
    thorough = chk.tier == "thorough"
    wmax = 5 if thorough else 4
    ns = 16
    jobs = [(shard, dict(shard=s, nshards=ns, wmax=wmax, seed=chk.seed, nsamples=5000 if thorough else 1000))
            for s in range(ns)]
    jobs += [(shard_shortcuts, dict(shard=s, nshards=ns)) for s in range(ns)]
    chk.add(run_shards(jobs))
    chk.exhaustive.append("every application of the C03 constructor table through the pysmt.shortcuts function of the same name")
    chk.exhaustive.append("all Bool / BV (widths 1..%d) argument tuples of every form with a finite domain <= 4096" % wmax)
    chk.floor("exhaustive-form", 500)
    chk.floor("sampled-form", 100)
    chk.floor("shortcut-vs-manager", 50000)
    return chk.finish()


def replay(rec):
    import random
    run = Run(PID, known=[])
    c = rec["case"]
    base = c["form"].split("@")[0]
    for form in forms(5):
        if form[0] == base and list(form[1]) == [tuple(t) if isinstance(t, list) else t for t in c["types"]]:
            for sd in range(12):
                check_form(run, form, random.Random(sd), 200)
                for k in (1, 2, 3, 4):
                    check_form(run, form, random.Random(sd), 200, shaped=k)
                check_form_constants(run, form, random.Random(sd), 64)
                if run.violations:
                    break
    if run.violations:
        print("VIOLATION property=%s replay=(replayed)" % PID)
        print(run.violations[0]["detail"])
        return 1
    print("replay: no violation")
    return 0
