"""C08 - SMT-LIB import never misreads: accepted text means what the standard says."""
import json
import os
import warnings
from io import StringIO
from fractions import Fraction

from hypothesis import strategies as st

from pysmt.environment import Environment
from pysmt.smtlib.parser import SmtLibParser
import pysmt.smtlib.commands as smtcmd

from vf import bp as B
from vf.bp import BOOL, INT, REAL, STRING, BV, SORT, is_bv, is_arr, is_fun, is_sort, show, subterms, sym, app, const
from vf.refsem import (Evaluator, reftype, reffv, all_symbols, IllTyped, Unconstrained, NoSemantics, canon)
from vf.gen import G, Cfg, exhaustive_interps
from vf.harness import Run, Check, run_shards, drive, derive_seed, ROOT
from vf.common import with_timeout, Timeout
from vf import pys, smtref, names
from vf.smtprint import Writer, declarations, sort_text, quote

warnings.filterwarnings("ignore")

PID = "C08"
RULE = ("SMT-LIB text written by my own writer (vf/smtprint.py) from generated blueprints with syntactic variation: literal "
        "notations (#b / #x / (_ bvN w) / decimals / (- n) / (/ a b)), quoted simple symbols, nested and parallel lets "
        "(incl. swap lets whose bindings mention names bound by the same let), quantifiers and define-fun parameters that "
        "shadow globals, definitions that mention globals applied under binders of the same name, declare-const, chainable "
        "and n-ary forms, distinct / xor / negated BV operators, numerals typed by the logic; plus malformed variants "
        "(undeclared / out-of-scope symbol, unbalanced parentheses, unknown command, wrong arity, ill-typed application).  "
        "The independent reader vf/smtref.py gives the standard meaning; pySMT must either raise or return, for every "
        "assert / define-fun body / get-value term / declaration, something with that meaning (reference evaluator, all "
        "<=64 or 8 sampled interpretations).  A committed corpus of construct snippets must stay accepted.  non-trivial = "
        "the script uses a binder, a non-default literal notation or an n-ary chain; distinct by text hash")

WINDOW = {INT: [-2, 0, 1, 3], REAL: [Fraction(-1), Fraction(0), Fraction(1, 2), Fraction(2)]}
CORPUS = os.path.join(ROOT, "vf", "accepted_constructs.json")


# ---------------------------------------------------------------- reading with pysmt

def pysmt_read(text, env=None, parser=None):
    """-> ('ok', env, script) | ('raised', exception).  A parser object can be re-used across scripts."""
    env = env or Environment()
    with env:
        try:
            p = parser or SmtLibParser(env)
            sc = with_timeout(5, lambda: p.get_script(StringIO(text)))
        except Timeout:
            raise
        except Exception as e:           # any error is a rejection
            return ("raised", e, None)
    return ("ok", env, sc)


def compare_scripts(run, text, ref, env, psc, g, cards, case, tags):
    """ref: smtref Script ; psc: pysmt SmtLibScript.  Reports violations; returns number of compared terms."""
    decls = {c[1]: c[2] for c in ref.commands if c[0] == "declare-fun"}
    # --- declarations
    with env:
        pdecl = {}
        for c in psc.commands:
            if c.name in (smtcmd.DECLARE_FUN, smtcmd.DECLARE_CONST):
                s = c.args[0]
                pdecl[s.symbol_name()] = pys.from_ptype(s.symbol_type())
        for n, t in decls.items():
            if pdecl.get(n) != t:
                run.fail({"subcheck": "parse:declaration"}, case,
                         "symbol %r: standard reading %r, pySMT %r\n text=%s" % (n, t, pdecl.get(n), text[:600]))
                return 0
        # --- terms, paired by command order
        rterms = []
        for c in ref.commands:
            if c[0] == "assert":
                rterms.append(("assert", [], c[1]))
            elif c[0] == "define-fun":
                rterms.append(("define-fun", c[2], c[4]))
            elif c[0] == "get-value":
                for t in c[1]:
                    rterms.append(("get-value", [], t))
        pterms = []
        memo = {}
        for c in psc.commands:
            if c.name == smtcmd.ASSERT:
                pterms.append(("assert", [], pys.decode(c.args[0], memo)))
            elif c.name == smtcmd.DEFINE_FUN:
                ps = [(p.symbol_name(), pys.from_ptype(p.symbol_type())) for p in c.args[1]]
                pterms.append(("define-fun", ps, pys.decode(c.args[3], memo)))
            elif c.name == smtcmd.GET_VALUE:
                for t in c.args:
                    pterms.append(("get-value", [], pys.decode(t, memo)))
        rstack = [tuple(c) for c in ref.commands if c[0] in ("push", "pop")]
        pstack = [(c.name, c.args[0]) for c in psc.commands if c.name in (smtcmd.PUSH, smtcmd.POP)]
        if rstack != pstack:
            run.fail({"subcheck": "parse:stack-command-argument"}, case,
                     "assertion-stack commands: standard reading %r, pySMT %r\n text=%s" % (rstack, pstack, text[:600]))
            return 0
        # --- attributes of annotated terms, as the script reports them.  (Not matched term by term: the parser may build
        #     an annotated term in another shape than the blueprint.)  Over all annotated terms: an attribute that is only
        #     ever written without a value has no value; the values of :named / :weight are exactly the written ones.
        written = {}
        for (_abp, attrs) in getattr(g, "expected_annotations", ()):
            for (attr, val) in attrs:
                written.setdefault(attr, set()).add(val)
        if written and psc.annotations is not None:
            run.cls("annotations-compared")
            reported = {}
            for term_ in list(getattr(psc.annotations, "_annotations", {})):
                for attr, vals in (psc.annotations.annotations(term_) or {}).items():
                    reported.setdefault(attr, set()).update(str(v) for v in vals)
            for attr, vals_w in written.items():
                if Ellipsis in vals_w:
                    continue
                want = {v for v in vals_w if v is not None}
                got = reported.get(attr)
                if got is None or got != want:
                    run.fail({"subcheck": "parse:annotation", "attribute": "valueless" if not want else "valued"}, case,
                             "attribute :%s: the script reports the values %r, written: %r\n text=%s" % (
                                 attr, None if got is None else sorted(got), sorted(want), text[:600]))
                    break
        live = None
        if rstack:
            try:
                live = (ref.assertions(), pys.decode(psc.get_last_formula(env.formula_manager), memo))
            except Exception as e:
                run.fail({"subcheck": "parse:live-assertions-raised"}, case,
                         "get_last_formula raised %s: %s\n text=%s" % (type(e).__name__, e, text[:600]))
                return 0
    if live is not None:
        rterms.append(("live-assertions", [], ("AND", (), tuple(live[0])) if len(live[0]) > 1 else
                       live[0][0] if live[0] else ("CONST", (BOOL, True), ())))
        pterms.append(("live-assertions", [], live[1]))
    if [k for (k, _, _) in rterms] != [k for (k, _, _) in pterms]:
        run.fail({"subcheck": "parse:command-list"}, case,
                 "commands differ: standard %r, pySMT %r\n text=%s" % ([k for (k, _, _) in rterms], [k for (k, _, _) in pterms], text[:600]))
        return 0
    syms = sorted(decls.items(), key=repr)
    interps = exhaustive_interps(syms, cards, cap=64) or [g.interp(syms, cards) for _ in range(8)]
    n = 0
    for (kind, rps, rb), (_, pps, pb) in zip(rterms, pterms):
        if [t for (_, t) in rps] != [t for (_, t) in pps]:
            run.fail({"subcheck": "parse:define-fun-signature"}, case, "parameters %r vs %r" % (rps, pps))
            continue
        try:
            tr, tp = reftype(rb), reftype(pb)
        except IllTyped as e:
            run.fail({"subcheck": "parse:illtyped-result"}, case, "%s\n text=%s" % (e, text[:600]))
            continue
        if tr != tp:
            run.fail({"subcheck": "parse:sort", "tags": _tagkey(tags)}, case,
                     "%s: standard sort %r, pySMT %r\n text=%s\n pysmt=%s" % (kind, tr, tp, text[:600], show(pb)))
            continue
        extra = {s for s in reffv(pb) if s[0] not in decls and s not in pps}
        if extra:
            run.fail({"subcheck": "parse:undeclared-free-symbol", "tags": _tagkey(tags)}, case,
                     "pySMT's reading has free symbols %r that the script never declares\n text=%s\n pysmt=%s" % (
                         sorted(extra), text[:600], show(pb)))
            continue
        unb = any(t in (INT, REAL) for b in (rb, pb) for s in subterms(b) if s[0] in ("FORALL", "EXISTS") for (_, t) in s[1])
        win = WINDOW if unb else None
        try:
            for I in interps:
                pvals = [g.value(t, cards) for (_, t) in rps]
                Ir, Ip = dict(I), dict(I)
                for (rn, _), (pn, _), v in zip(rps, pps, pvals):
                    Ir[rn] = v
                    Ip[pn] = v
                vr = Evaluator(Ir, cards, window=win).eval(rb)
                vp = Evaluator(Ip, cards, window=win).eval(pb)
                if canon(vr, tr, cards) != canon(vp, tr, cards):
                    run.fail({"subcheck": "parse:meaning", "tags": _tagkey(tags)}, case,
                             "%s misread: the standard reading gives %r, pySMT's %r under %r\n text=%s\n standard=%s\n pysmt=%s" % (
                                 kind, vr, vp, I, text[:700], show(rb, 300), show(pb, 300)))
                    break
            n += 1
        except (Unconstrained, NoSemantics):
            run.discard("no-semantics")
    return n


TRAPS = ("parallel-let-swap", "definition-captured-by-binder", "let-captured-by-binder", "definition-shadowed-by-binder",
         "undeclared-read-as-string")


def _tagkey(tags):
    for t in TRAPS:
        if t in tags:
            return t
    return "generic"


# ---------------------------------------------------------------- generation of scripts

LOGICS = [None, None, "QF_AUFLIRA", "ALL"]


def pick_logic(bps, rnd):
    ops, tys = set(), set()
    for b in bps:
        ops |= B.ops_of(b)
        for s in subterms(b):
            try:
                tys.add(reftype(s))
            except IllTyped:
                pass
        for (_, t) in all_symbols(b):
            tys.add(t)
    base = {t if isinstance(t, str) else t[0] for t in tys}
    if base <= {BOOL, REAL} and REAL in base and not ops & {"FORALL", "EXISTS", "FUNCTION"}:
        return rnd.choice(["QF_LRA", "QF_LRA", None, "QF_NRA"])
    if base <= {BOOL, INT} and INT in base and not ops & {"FORALL", "EXISTS", "FUNCTION"}:
        return rnd.choice(["QF_LIA", None, "QF_NIA"])
    if base <= {BOOL, "BV"} and not ops & {"FORALL", "EXISTS", "FUNCTION"}:
        return rnd.choice(["QF_BV", None])
    return None


GCFGS = [Cfg(max_depth=4, theories={"bool", "int", "real", "bv", "arr", "uf", "str", "sort", "quant"}, share=40,
             quant_unbounded=True, bv_widths=[1, 2, 4, 8]),
         Cfg(max_depth=4, theories={"bool", "real"}, share=40),
         Cfg(max_depth=4, theories={"bool", "int"}, share=40),
         Cfg(max_depth=4, theories={"bool", "bv"}, bv_widths=[1, 2, 4, 8, 16], share=40),
         Cfg(max_depth=3, theories={"bool", "int", "real", "arr", "uf", "quant"}, quant_unbounded=True, share=30)]


def gen_script(rnd, k):
    """-> (text, tags, g, cards)"""
    g = G(cfg=GCFGS[k % len(GCFGS)], rnd=rnd)
    cards = g.cards()
    tags = set()
    kind = g.weighted([(6, "plain"), (3, "define-fun"), (2, "swap-let"), (2, "def-capture"), (2, "let-capture"),
                       (1, "def-shadow"), (2, "get-value"), (2, "stack"), (2, "chain"), (2, "rebind-let"),
                       (1, "redefine-after-pop")])
    nform = g.weighted([(5, 1), (3, 2), (1, 3)]) if kind != "stack" else rnd.randint(2, 4)
    forms = [g.term(BOOL) for _ in range(nform)]
    ns = set()
    for f in forms:
        ns |= {n for (n, _) in all_symbols(f)}
    FNS = {n for f in forms for (n, ty_) in all_symbols(f) if is_fun(ty_)}
    if g.pct(40):
        m = names.hostile_mapping(rnd, ns, pct=40, functions=FNS)
        forms = [names.rename(f, m) for f in forms]
        ns = {m.get(n, n) for n in ns}
    gv_terms = [g.term(g.ty(), 2) for _ in range(2)] if kind == "get-value" else []
    # the logic must cover everything the script mentions (also the get-value terms)
    logic = pick_logic(forms + gv_terms, rnd)
    w = Writer(rnd, numerals_are_real=logic in ("QF_LRA", "QF_NRA", "QF_RDL", "LRA"), tags=tags)
    w.int_numeral_rationals = True
    w.annotate = True
    w.qualify = True
    lines = []
    if logic:
        lines.append("(set-logic %s)" % logic)
        tags.add("set-logic:" + logic)
    extra_decl_forms = list(forms)
    body_lines = []
    if kind == "plain":
        for f in forms:
            body_lines.append("(assert %s)" % w.term_with_lets(f, ns))
    elif kind == "chain":
        # chainable and pairwise operators with three or four arguments, of every sort they apply to
        T = g.choice([INT, REAL, BV(2), BOOL, BOOL])
        ts = [g.term(T, 2) for _ in range(rnd.randint(3, 4))]
        if g.pct(30):
            ts[-1] = ts[0]
        ops_ = ["=", "distinct"] + (["<", "<=", ">", ">="] if T in (INT, REAL) else [])
        o = g.choice(ops_)
        extra_decl_forms = list(ts)
        forms = []
        body_lines.append("(assert (%s %s))" % (o, " ".join(w.term(t) for t in ts)))
        tags.add("chain:%s:%s" % (o, B.tystr(T).rstrip("0123456789")))
        tags.add("chainable-or-pairwise")
    elif kind == "stack":
        # assertion-stack commands in every spelling: (push) (push 0) (push 2) (pop) (pop 0) ...
        depth = 0
        tags.add("stack-commands")
        for f in forms:
            for _ in range(rnd.randint(0, 2)):
                if depth > 0 and rnd.random() < 0.45:
                    n = rnd.choice([0, 1, 1, min(2, depth)])
                    body_lines.append("(pop)" if n == 1 and rnd.random() < 0.4 else "(pop %d)" % n)
                    depth -= n
                    tags.add("pop-%d" % n)
                else:
                    n = rnd.choice([0, 1, 1, 2])
                    body_lines.append("(push)" if n == 1 and rnd.random() < 0.4 else "(push %d)" % n)
                    depth += n
                    tags.add("push-%d" % n)
            body_lines.append("(assert %s)" % w.term(f))
        if rnd.random() < 0.5:
            body_lines.append("(check-sat)")
    elif kind == "get-value":
        body_lines.append("(assert %s)" % w.term(forms[0]))
        body_lines.append("(check-sat)")
        ts = gv_terms
        extra_decl_forms += ts
        body_lines.append("(get-value (%s))" % " ".join(w.term(t) for t in ts))
        tags.add("get-value")
    elif kind == "define-fun":
        f = forms[0]
        cands = [s for s in subterms(f) if s[2] and s is not f and s[0] not in ("FORALL", "EXISTS")
                 and not any(x[0] in ("FORALL", "EXISTS") for x in subterms(s))]
        # only abstract sub-terms none of whose symbols is bound at the occurrence: use a binder-free formula
        if cands and not (B.ops_of(f) & {"FORALL", "EXISTS"}):
            s0 = rnd.choice(cands)
            params = sorted((p for p in reffv(s0) if not is_fun(p[1])), key=repr)
            if rnd.random() < 0.5 and len(params) > 1:
                params = params[:1]            # the body then mentions globals too
                tags.add("define-fun-body-mentions-globals")
            fname = rnd.choice(["g", "def1", "f!", "my fun"])
            while fname in ns:
                fname += "_"
            tags.add("define-fun")
            body_lines.append("(define-fun %s (%s) %s %s)" % (
                quote(fname), " ".join("(%s %s)" % (w.name(n), sort_text(t)) for (n, t) in params),
                sort_text(reftype(s0)), w.term(s0)))
            call = "(%s %s)" % (quote(fname), " ".join(w.name(n) for (n, _) in params)) if params else quote(fname)
            w.subst[id(s0)] = call
            body_lines.append("(assert %s)" % w.term(f))
            w.subst.clear()
        else:
            body_lines.append("(assert %s)" % w.term_with_lets(f, ns))
    elif kind == "swap-let":
        # (let ((x y) (y x)) T[x<->y])  ==  T      (bindings of one let are simultaneous)
        f = forms[0]
        if B.ops_of(f) & {"FORALL", "EXISTS"}:
            body_lines.append("(assert %s)" % w.term(f))
        else:
            bytype = {}
            for s in reffv(f):
                if not is_fun(s[1]):
                    bytype.setdefault(s[1], []).append(s)
            pairs = [v for v in bytype.values() if len(v) >= 2]
            if pairs:
                v = sorted(rnd.choice(pairs), key=repr)[:2]
                x, y = v
                swapped = names.rename(f, {x[0]: "\0tmp"})
                swapped = names.rename(swapped, {y[0]: x[0]})
                swapped = names.rename(swapped, {"\0tmp": y[0]})
                tags.add("parallel-let-swap")
                body_lines.append("(assert (let ((%s %s) (%s %s)) %s))" % (
                    w.name(x[0]), w.name(y[0]), w.name(y[0]), w.name(x[0]), w.term(swapped)))
            else:
                body_lines.append("(assert %s)" % w.term_with_lets(f, ns))
    elif kind == "rebind-let":
        # (let ((A e1)) (let ((A e2) (B A)) F[A, B]))  ==  F[e2', e1]: the bindings of the inner let are simultaneous, so
        # B is the OUTER A (bound by the enclosing let, or a parameter of a definition), not e2
        f = forms[0]
        bytype = {}
        for s_ in reffv(f):
            if not is_fun(s_[1]) and not is_arr(s_[1]):
                bytype.setdefault(s_[1], []).append(s_)
        pairs = [v for v in bytype.values() if len(v) >= 2]
        if B.ops_of(f) & {"FORALL", "EXISTS"} or not pairs:
            body_lines.append("(assert %s)" % w.term_with_lets(f, ns))
        else:
            x, y = sorted(rnd.choice(pairs), key=repr)[:2]
            T = x[1]
            fresh = rnd.random() < 0.6
            A, Bn = ("rb!A", "rb!B") if fresh else (x[0], y[0])
            f2 = names.rename(names.rename(f, {x[0]: "\0a"}), {y[0]: Bn})
            f2 = names.rename(f2, {"\0a": A})
            e1, e2 = g.term(T, 1), g.term(T, 2)
            if rnd.random() < 0.5:
                e2 = app("ITE", g.term(BOOL, 1), sym(A, T), e2)        # e2 mentions the outer A
            extra_decl_forms += [e1, e2] if fresh else [e1, e2, sym(*x), sym(*y)]
            if fresh:
                # A occurs free in e2 only as the let-bound name: nothing to declare for it
                extra_decl_forms = [names.rename(z, {A: x[0]}) for z in extra_decl_forms]
            inner = "(let ((%s %s) (%s %s)) %s)" % (w.name(A), w.term(e2), w.name(Bn), w.name(A), w.term(f2))
            if rnd.random() < 0.5:
                tags.add("let-rebinds-let-bound-name")
                body_lines.append("(assert (let ((%s %s)) %s))" % (w.name(A), w.term(e1), inner))
            else:
                tags.add("let-rebinds-parameter")
                body_lines.append("(define-fun rbdef ((%s %s)) Bool %s)" % (w.name(A), sort_text(T), inner))
                body_lines.append("(assert (rbdef %s))" % w.term(e1))
    elif kind == "redefine-after-pop":
        # a definition made inside a level disappears with the level: the name may be defined again, differently
        T = g.choice([REAL, BV(2), BOOL] if w.real_numerals else [INT, REAL, BV(2), BOOL])
        gb = G(cfg=Cfg(max_depth=2, theories={"bool", "real", "bv"} if w.real_numerals else {"bool", "int", "real", "bv"},
                       bv_widths=[1, 2], share=20), rnd=rnd)
        a = ("a?", T)
        tags.add("redefinition-after-pop")
        forms = []
        for round_ in (0, 1):
            gb.pool = {T: [sym(*a), g.symbol(T), sym(*a)]}
            body = gb.term(BOOL, 2)
            if sym(*a) not in subterms(body):
                body = app("AND", body, app("EQUALS" if T != BOOL else "IFF", sym(*a), g.term(T, 1)))
            val = g.term(T, 1)
            extra_decl_forms += [names.rename(body, {"a?": "rd!c"}), val]
            if round_ == 0:
                body_lines.append("(push 1)" if rnd.random() < 0.6 else "(push)")
            body_lines.append("(define-fun |rd!c| () %s %s)" % (sort_text(T), w.term(val)))
            body_lines.append("(define-fun |rd!f| ((|a?| %s)) Bool %s)" % (sort_text(T), w.term(body)))
            body_lines.append("(assert (|rd!f| |rd!c|))")
            if round_ == 0:
                body_lines.append("(pop 1)")
        dl0 = declarations([x for x in extra_decl_forms], w)
        lines += [d for d in dl0 if "|rd!c|" not in d and " rd!c " not in d]
        lines += body_lines
        body_lines = []
        extra_decl_forms = []
    elif kind in ("def-capture", "let-capture", "def-shadow"):
        # Q v:T. B(v, c)  with c a global of sort T
        T = g.choice([INT, REAL, BV(2), BOOL])
        c = g.symbol(T)
        v = ("bv!", T)
        gb = G(cfg=Cfg(max_depth=2, theories={"bool", "int", "real", "bv"}, bv_widths=[1, 2], share=20), rnd=rnd)
        gb.pool = {T: [sym(*v), c, sym(*v)]}
        body = gb.term(BOOL, 2)
        if sym(*v) not in subterms(body) or c not in subterms(body):
            body = app("AND", body, app("NOT", app("EQUALS" if T != BOOL else "IFF", sym(*v), c)))
        q = g.choice(["forall", "exists"])
        cn = w.name(c[1][0])
        extra_decl_forms.append(body)
        extra_decl_forms.append(c)
        if kind == "def-capture":
            # g(a) = B(a, c)   ;  (Q ((c T)) (g c))
            tags.add("definition-captured-by-binder")
            wa = names.rename(body, {v[0]: "a?"})
            body_lines.append("(define-fun gdef ((|a?| %s)) Bool %s)" % (sort_text(T), w.term(wa)))
            body_lines.append("(assert (%s ((%s %s)) (gdef %s)))" % (q, cn, sort_text(T), cn))
        elif kind == "let-capture":
            # (let ((a c)) (Q ((c T)) B(c_bound, a)))
            tags.add("let-captured-by-binder")
            inner = names.rename(body, {c[1][0]: "a?"})
            inner = names.rename(inner, {v[0]: c[1][0]})
            body_lines.append("(assert (let ((|a?| %s)) (%s ((%s %s)) %s)))" % (cn, q, cn, sort_text(T), w.term(inner)))
        else:
            # a 0-ary definition named like a bound variable:  (define-fun d () T c) (Q ((d T)) B(d_bound, c))
            tags.add("definition-shadowed-by-binder")
            inner = names.rename(body, {v[0]: "d?"})
            body_lines.append("(define-fun |d?| () %s %s)" % (sort_text(T), cn))
            body_lines.append("(assert (%s ((|d?| %s)) %s))" % (q, sort_text(T), w.term(inner)))
        extra_decl_forms = [x for x in extra_decl_forms]
        forms = []
    decl_src = [f for f in extra_decl_forms]
    # bound-variable placeholder must not be declared
    dl = declarations(decl_src, w)
    dl = [d for d in dl if "|bv!|" not in d and " bv! " not in d]
    lines += dl + body_lines
    if g.pct(20):
        lines.insert(rnd.randrange(len(lines) + 1), "; a comment ( with | parens")
        tags.add("comment")
    sep = "\n" if g.pct(80) else "  \t\n "
    g.expected_annotations = list(w.annotations) if kind in ("plain", "chain", "stack", "get-value") else []
    text = sep.join(lines) + "\n"
    if g.pct(6) and not any("\n" in l or "\r" in l for l in lines):
        # the other line-break conventions (carriage return is white space and ends a comment)
        nl = g.choice(["\r\n", "\r"])
        text = text.replace("\n", nl)
        tags.add("line-breaks:" + ("crlf" if nl == "\r\n" else "cr"))
    return text, tags, g, cards


# ---------------------------------------------------------------- malformed variants

def malform(text, rnd, decl_names):
    """-> (class, mutated text) for one of the classes with an unambiguous 'must be an error'."""
    k = rnd.randrange(7)
    if k == 0:
        return "undeclared-symbol", text.replace("(assert ", "(assert (and |never declared!| ", 1).replace("\n", ")\n", 1) \
            if False else text + "(assert (= |never declared!| |never declared!|))\n"
    if k == 1:
        return "out-of-scope-let-variable", text + "(assert (and (let ((|lv oos| true)) |lv oos|) |lv oos|))\n"
    if k == 2:
        return "out-of-scope-bound-variable", text + "(assert (and (forall ((|qv oos| Int)) (> |qv oos| 0)) (> |qv oos| 0)))\n"
    if k == 3:
        i = text.rfind(")")
        return "unbalanced-parenthesis", text[:i] + text[i + 1:]
    if k == 4:
        return "unknown-command", text + "(frobnicate 3)\n"
    if rnd.random() < 0.5:
        # ill-sorted / ill-indexed uses the standard rejects whatever the logic is
        return rnd.choice([
            ("defined-function-argument-sort", text + "(define-fun |df!s| ((a Int)) Int a)(assert (= (|df!s| 1.5) 1))\n"),
            ("defined-function-argument-sort", text + "(define-fun |df!b| ((a Bool) (b Int)) Bool a)(assert (|df!b| 1 true))\n"),
            ("defined-function-body-sort", text + "(define-fun |df!r| ((n Int)) Real (+ n 1))(assert (= (|df!r| 1) 2.0))\n"),
            ("defined-function-body-sort", text + "(define-fun |df!q| ((n Int)) Bool (+ n 1))(assert (|df!q| 1))\n"),
            ("defined-function-arity", text + "(define-fun |df!a| ((a Int)) Int a)(assert (= (|df!a| 1 2) 1))\n"),
            ("defined-function-arity", text + "(define-fun |df!z| ((a Int)) Int a)(assert (= |df!z| 1))\n"),
            ("declared-function-argument-sort", text + "(declare-fun |uf!s| (Int) Int)(assert (= (|uf!s| true) 1))\n"),
            ("declared-function-arity", text + "(declare-fun |uf!a| (Int) Int)(assert (= (|uf!a| 1 2) 1))\n"),
            ("let-binds-a-name-twice", text + "(assert (let ((|lv d| 1) (|lv d| 2)) (= |lv d| 1)))\n"),
            ("real-division-of-integer-terms", text + "(declare-fun |iv!| () Int)(assert (= 0.5 (/ (+ |iv!| 1) 4)))\n"),
            ("repeat-zero", text + "(assert (= ((_ repeat 0) #b01) #b01))\n"),
            ("real-division-of-non-arithmetic-constants", text + "(assert (= (/ #b01 #b11) 1.0))\n"),
            ("real-division-of-non-arithmetic-constants", text + "(assert (= (/ \"a\" \"b\") 1.0))\n"),
            ("extract-out-of-range", text + "(assert (= ((_ extract 5 0) #b01) #b01))\n"),
            ("extract-out-of-range", text + "(assert (= ((_ extract 0 1) #b01) #b01))\n"),
            ("zero-width-bit-vector", text + "(assert (= (_ bv1 0) (_ bv1 0)))\n"),
            ("ite-branch-sorts", text + "(assert (= (ite true 1 #b1) 1))\n"),
            ("equality-of-different-sorts", text + "(assert (= 1 #b1))\n"),
            ("equality-of-different-sorts", text + "(assert (distinct \"a\" #b1))\n"),
            ("store-value-sort", text + "(declare-fun |ar!| () (Array Int Int))(assert (= (store |ar!| 1 true) |ar!|))\n"),
            ("select-index-sort", text + "(declare-fun |ar!| () (Array Int Int))(assert (= (select |ar!| true) 1))\n"),
            ("bit-vector-operator-on-integers", text + "(assert (bvult 1 2))\n"),
            ("bit-vector-operator-on-integers", text + "(assert (= (concat 1 #b1) #b11))\n"),
            ("string-operator-on-integers", text + "(assert (= (str.len 5) 1))\n"),
            ("as-const-value-sort", text + "(declare-fun |ar!r| () (Array Int Real))(assert (= |ar!r| ((as const (Array Int Int)) 1.5)))\n"),
            ("as-const-value-sort", text + "(declare-fun |ar!b| () (Array Int Bool))(assert (= |ar!b| ((as const (Array Int Int)) true)))\n"),
            ("as-const-value-sort", text + "(assert (= ((as const (Array Int Int)) true) ((as const (Array Int Int)) 0)))\n"),
            ("boolean-connective-on-integers", text + "(assert (and 1 2))\n"),
            ("arithmetic-on-booleans", text + "(assert (= (- true) 1))\n"),
            ("bv2nat-of-integer", text + "(assert (= (bv2nat 3) 3))\n"),
        ])
    return rnd.choice([("wrong-arity-not", text + "(assert (not true false))\n"),
                       ("wrong-arity-ite", text + "(assert (ite true false))\n"),
                       ("ill-typed-plus-bool", text + "(assert (= (+ true 1) 2))\n"),
                       ("ill-typed-bvadd-widths", text + "(assert (= (bvadd #b01 #b011) #b011))\n"),
                       ("ill-typed-select", text + "(assert (select true 1))\n")])


# ---------------------------------------------------------------- driver

def check_case(run, text, tags, g, cards, rnd):
    case = {"text": text, "tags": sorted(tags), "cards": cards}
    try:
        ref = smtref.read_script(text, strict=True)
    except smtref.IllFormed as e:
        run.discard("writer-produced-illformed:" + e.cls)
        return
    try:
        st_, a, psc = pysmt_read(text)
    except Timeout:
        run.discard("timeout")
        return
    nontriv = bool(tags & {"quantifier", "let", "parallel-let", "chainable", "nary-flattened", "hex-literal",
                           "bv-indexed-literal", "decimal", "rational", "define-fun"} or tags & set(TRAPS))
    run.case(key=text, nontrivial=nontriv, sample={"text": text[:300], "tags": sorted(tags)} if len(text) < 300 and nontriv else None)
    for t in tags:
        run.cls("tag:" + t)
    if st_ == "raised":
        run.cls("rejected")
        for t in tags:
            run.cls("rejected-tag:" + t)
    else:
        run.cls("accepted")
        compare_scripts(run, text, ref, a, psc, g, cards, case, tags)
    # malformed variant
    cls, bad = malform(text, rnd, None)
    try:
        smtref.read_script(bad, strict=True)
        run.discard("malformed-variant-is-wellformed")
        return
    except smtref.IllFormed:
        pass
    try:
        st2, a2, _ = pysmt_read(bad)
    except Timeout:
        return
    run.case(key=bad, nontrivial=True)
    run.cls("malformed:" + cls)
    if st2 == "ok":
        run.fail({"subcheck": "parse:accepted-malformed", "class": cls}, {"text": bad, "tags": [cls], "cards": cards},
                 "pySMT accepted a malformed script (%s)\n text=%s" % (cls, bad[-400:]))


def check_sequence(run, items):
    """The same SmtLibParser object reads several scripts one after the other: each reading must be
    the standard reading of that script alone."""
    env = Environment()
    with env:
        parser = SmtLibParser(env)
    for i, (text, tags, g, cards) in enumerate(items):
        case = {"sequence": [t for (t, _, _, _) in items[:i + 1]], "tags": sorted(tags) + ["parser-reused"], "cards": cards,
                "text": text}
        try:
            ref = smtref.read_script(text, strict=True)
        except smtref.IllFormed:
            return
        try:
            st_, a, psc = pysmt_read(text, env=env, parser=parser)
        except Timeout:
            return
        run.case(key=("seq", i, text), nontrivial=i > 0)
        run.cls("parser-reused:script-%d" % min(i, 2))
        if st_ == "raised":
            # would a fresh parser accept it?  then the earlier script changed the outcome
            st2, _, _ = pysmt_read(text)
            if st2 == "ok":
                run.fail({"subcheck": "parse:reused-parser-rejects", "tags": _tagkey(tags)}, case,
                         "script #%d is accepted by a fresh parser but rejected (%s: %s) by a parser that read %d script(s) before\n text=%s" % (
                             i, type(a).__name__, str(a)[:200], i, text[:500]))
            continue
        compare_scripts(run, text, ref, a, psc, g, cards, case, set(tags) | {"parser-reused"})


def shard(shard, seed, n):
    run = Run(PID)

    def body(rnd):
        if rnd.randrange(100) < 20:
            items = []
            for j in range(rnd.randint(2, 3)):
                k = rnd.choice([1, 2, 0, 4, 3])
                g = G(cfg=GCFGS[k], rnd=rnd)
                t = g.term(BOOL, 3)
                tags = set()
                logic = pick_logic([t], rnd)
                w = Writer(rnd, numerals_are_real=logic in ("QF_LRA", "QF_NRA"), tags=tags)
                lines = (["(set-logic %s)" % logic] if logic else []) + declarations([t], w) + ["(assert %s)" % w.term(t)]
                items.append(("\n".join(lines) + "\n", tags, g, g.cards()))
            check_sequence(run, items)
            return
        if rnd.randrange(100) < 8:
            check_answer(run, rnd)
            return
        text, tags, g, cards = gen_script(rnd, shard)
        check_case(run, text, tags, g, cards, rnd)
    drive(body, st.randoms(use_true_random=True), n, derive_seed(seed, "c08", shard))
    return run


def check_answer(run, rnd):
    """The reply of get-value / get-model is SMT-LIB text too: ((t1 v1) (t2 v2) ...).  The symbols exist in the
    environment (they are not declared in the text); several function symbols share one signature."""
    from pysmt.smtlib.parser import SmtLibParser
    g = G(cfg=Cfg(max_depth=2, theories={"bool", "int", "bv", "uf"}, bv_widths=[1, 4], nsyms=2), rnd=rnd)
    env = Environment()
    tags = set()
    w = Writer(rnd, tags=tags, variation=False)
    pairs = []
    with env:
        # function symbols first and last (the last symbol created is a function of the same signature)
        sig = ("Fun", INT, (INT,))
        fs = [sym(n, sig) for n in ("fa", "fb", "fc")]
        built = []
        for _ in range(rnd.randint(1, 4)):
            ty = g.choice([BOOL, INT, BV(4)])
            t = g.term(ty, 2) if rnd.random() < 0.5 else ("FUNCTION", rnd.choice(fs)[1], (g.term(INT, 1),))
            try:
                ty = reftype(t)
                ft = pys.build(env, t)
            except Exception:
                continue
            v = g.constant(ty)
            pairs.append((t, v))
            built.append((ft, pys.build(env, v)))
        for f_ in fs:
            pys.build(env, f_)
        if not pairs:
            return
        text = "(" + " ".join("(%s %s)" % (w.term(t), w.term(v)) for (t, v) in pairs) + ")\n"
        case = {"text": text, "tags": ["answer"], "cards": {}}
        run.case(key=text, nontrivial=any(t[0] == "FUNCTION" for (t, _) in pairs))
        run.cls("answer:get-value-reply")
        try:
            got = SmtLibParser(env).get_assignment_list(StringIO(text))
        except Exception as e:
            run.fail({"subcheck": "parse:answer-rejected"}, case,
                     "get_assignment_list raised %s: %s on a well-formed reply\n text=%s" % (type(e).__name__, str(e)[:200], text[:400]))
            return
        if len(got) != len(built) or any(a is not c or b is not d for (a, b), (c, d) in zip(got, built)):
            run.fail({"subcheck": "parse:answer-misread"}, case,
                     "reply read as %s, it says %s\n text=%s" % (got, [(str(a), str(b)) for a, b in built], text[:400]))


def corpus_check(run):
    """Constructs accepted on the pinned tree must keep being accepted (and keep their meaning)."""
    import random
    try:
        corpus = json.load(open(CORPUS))
    except FileNotFoundError:
        return
    g = G(cfg=GCFGS[0], rnd=random.Random(0))
    for item in corpus:
        text = item["script"]
        case = {"text": text, "tags": ["corpus:" + item["name"]], "cards": {}}
        ref = smtref.read_script(text, strict=True)
        st_, a, psc = pysmt_read(text)
        run.case(key=text, nontrivial=True)
        run.cls("corpus")
        if st_ == "raised":
            run.fail({"subcheck": "parse:construct-no-longer-accepted", "construct": item["name"]}, case,
                     "construct %r was accepted on the pinned tree, now raises %s: %s\n text=%s" % (
                         item["name"], type(a).__name__, a, text))
        else:
            compare_scripts(run, text, ref, a, psc, g, {}, case, {"corpus"})


def shard_corpus():
    run = Run(PID)
    corpus_check(run)
    return run


def main():
    chk = Check(PID, "exploration", RULE, assumptions=[
        "independent reader vf/smtref.py = the standard's meaning (parallel let, lexical scoping, capture-avoiding "
        "definition expansion, numerals typed by the logic); reference evaluator vf/refsem.py",
        "any exception raised by the parser is a rejection; rejected well-formed text is only judged through the "
        "committed corpus vf/accepted_constructs.json",
        "binders over Int/Real are compared under a finite binder window on both readings"])
    thorough = chk.tier == "thorough"
    jobs = [(shard, dict(shard=s, seed=chk.seed, n=20000 if thorough else 1200)) for s in range(15)]
    jobs.append((shard_corpus, dict()))
    chk.add(run_shards(jobs))
    for t in ("tag:let", "tag:parallel-let", "tag:parallel-let-swap", "tag:definition-captured-by-binder",
              "tag:let-captured-by-binder", "tag:define-fun", "tag:quantifier", "tag:hex-literal", "tag:decimal",
              "accepted", "malformed:undeclared-symbol", "malformed:unbalanced-parenthesis", "parser-reused:script-1"):
        chk.floor(t, 200)
    return chk.finish()


def replay(rec):
    import random
    run = Run(PID, known=[])
    c = rec["case"]
    g = G(cfg=GCFGS[0], rnd=random.Random(0))
    if "sequence" in c:
        check_sequence(run, [(t, set(), g, c.get("cards", {})) for t in c["sequence"]])
        if run.violations:
            print("VIOLATION property=%s replay=(replayed)" % PID)
            print(run.violations[0]["detail"])
            return 1
        print("replay: no violation")
        return 0
    text = c["text"]
    try:
        ref = smtref.read_script(text, strict=True)
    except smtref.IllFormed:
        ref = None
    st_, a, psc = pysmt_read(text)
    if ref is None:
        if st_ == "ok":
            run.fail({"subcheck": "parse:accepted-malformed"}, c, "accepted malformed text")
    elif st_ == "ok":
        compare_scripts(run, text, ref, a, psc, g, c.get("cards", {}), c, set(c.get("tags", [])))
    elif any(t.startswith("corpus:") for t in c.get("tags", [])):
        run.fail({"subcheck": "parse:construct-no-longer-accepted"}, c, "raises %s" % a)
    if run.violations:
        print("VIOLATION property=%s replay=(replayed)" % PID)
        print(run.violations[0]["detail"])
        return 1
    print("replay: no violation")
    return 0
