"""C09 - printing then parsing gives the formula back (SMT-LIB and human-readable)."""
import warnings
from io import StringIO
from fractions import Fraction

from hypothesis import strategies as st

from pysmt.environment import Environment
from pysmt.smtlib.parser import SmtLibParser
from pysmt.smtlib.script import smtlibscript_from_formula
import pysmt.smtlib.commands as smtcmd
from pysmt.parsing import HRParser

from vf import bp as B
from vf.bp import BOOL, INT, REAL, STRING, BV, SORT, is_bv, is_arr, is_fun, is_sort, show, subterms, sym, app
from vf.refsem import (Evaluator, reftype, reffv, all_symbols, IllTyped, Unconstrained, NoSemantics, canon)
from vf.gen import G, Cfg, exhaustive_interps, symname
from vf.harness import Run, Check, run_shards, drive, derive_seed
from vf.common import with_timeout, Timeout
from vf import pys, names, smtref
from vf.smtprint import Writer, declarations, sort_text, quote
from vf.checks.c04 import canon_arr
from vf.checks.c07 import PSORTS

warnings.filterwarnings("ignore")

PID = "C09"
RULE = ("(a) generated formulas of every theory with hostile names (incl. | and backslash) printed by "
        "smtlibscript_from_formula().serialize(daggify=True/False) and parsed back in the same environment must be the "
        "very same object (array values: the same structure after collapsing store chains over constant arrays).  "
        "(b) scripts over the serialisable commands (set-logic/option/info, declare-sort, define-sort, declare-fun/const, "
        "define-fun with parameters needing quoting, assert, push/pop, check-sat, get-value, assert-soft :weight :id, "
        "minimize/maximize :id :signed, minmax/maxmin, get-model, get-objectives, reset-assertions, exit ...): "
        "parse -> serialize -> parse must give an equal command list (formulas by identity, definitions up to a renaming "
        "of their parameters).  (c) formulas in the human-readable fragment: HRParser.parse(f.serialize()) has the same "
        "type, the same reference value, and the same structure up to the grouping of n-ary operators.  non-trivial = >=3 "
        "operators, a quoted name, a negative/rational constant, a shared sub-term under the DAG printer, or a command "
        "with options; distinct by text hash")


# ---------------------------------------------------------------- (a) SMT-LIB round trip

def collapse_stores(b):
    """STORE over a constant ARRAY_VALUE with a constant index -> ARRAY_VALUE (both sides get this normal form)."""
    memo = {}

    def go(t):
        k = id(t)
        if k in memo and memo[k][0] is t:
            return memo[k][1]
        op, params, ch = t
        ch2 = tuple(go(c) for c in ch)
        r = (op, params, ch2)
        if op == "ARRAY_STORE" and ch2[0][0] == "ARRAY_VALUE" and ch2[1][0] == "CONST":
            base = ch2[0]
            pairs = {base[2][i]: base[2][i + 1] for i in range(1, len(base[2]), 2)}
            pairs[ch2[1]] = ch2[2]
            flat = [base[2][0]]
            for kk, vv in pairs.items():
                if vv != base[2][0]:
                    flat += [kk, vv]
            r = ("ARRAY_VALUE", base[1], tuple(flat))
        memo[k] = (t, r)
        return r
    return canon_arr(go(b))


def check_roundtrip(run, bp, g, cards):
    env = Environment()
    with env:
        try:
            f = pys.build(env, bp)
            if not f.get_type().is_bool_type():
                t = pys.from_ptype(f.get_type())
                if is_fun(t):
                    return
                f = env.formula_manager.Equals(f, pys.build(env, sym("rt!other", t)))
        except Exception:
            run.discard("rejected-by-constructor")
            return
        b0 = pys.decode(f)
        has_av = any(s[0] == "ARRAY_VALUE" and len(s[2]) > 1 for s in subterms(b0))
        delim = any(n in ("(", ")") or n.startswith('"') for (n, _) in all_symbols(b0))
        needs_quote = any(not all(c in smtref.SIMPLE for c in n) for (n, _) in all_symbols(b0))
        parsed = []
        for dag in (True, False):
            case = {"bp": bp, "cards": cards, "daggify": dag}
            try:
                buf = StringIO()
                smtlibscript_from_formula(f).serialize(buf, daggify=dag)
                text = buf.getvalue()
            except Exception as e:
                if type(e).__name__ == "NoLogicAvailableError":
                    run.discard("no-logic-available")
                    return
                run.fail({"subcheck": "roundtrip:print-raised", "exc": type(e).__name__}, case,
                         "serialize raised %s: %s\n formula=%s" % (type(e).__name__, e, show(b0)))
                continue
            nontriv = B.size(b0) >= 4 or needs_quote or (dag and text.count("(let") >= 2)
            run.case(key=text, nontrivial=nontriv, sample={"text": text[:260]} if needs_quote and len(text) < 260 else None)
            run.cls("roundtrip:" + ("dag" if dag else "tree"))
            if needs_quote:
                run.cls("roundtrip:quoted-name")
            if has_av:
                run.cls("roundtrip:array-value")
            try:
                g2 = with_timeout(5, lambda: SmtLibParser(env).get_script(StringIO(text)).get_last_formula())
            except Timeout:
                run.discard("timeout")
                continue
            except Exception as e:
                run.fail({"subcheck": "roundtrip:parse-raised", "class": "delimiter-name" if delim else "plain"}, case,
                         "pySMT cannot parse its own output: %s: %s\n formula=%s\n text=%s" % (
                             type(e).__name__, str(e)[:200], show(b0), text[:600]))
                continue
            parsed.append((text, g2, case))
            if g2 is f:
                continue
            if has_av and collapse_stores(pys.decode(g2)) == collapse_stores(b0):
                run.cls("roundtrip:array-value-as-stores")
                continue
            run.fail({"subcheck": "roundtrip:not-identical", "printer": "dag" if dag else "tree",
                      "class": "delimiter-name" if delim else "array-value" if has_av else "plain"}, case,
                     "parse(print(f)) is not f\n formula=%s\n parsed =%s\n text=%s" % (show(b0), show(pys.decode(g2)), text[:600]))


    # the same text read by a parser that is given the environment explicitly while another environment is the
    # current one: "in the same environment" must not depend on which environment is current
    for text, g2, case in parsed:
        try:
            g3 = SmtLibParser(environment=env).get_script(StringIO(text)).get_last_formula()
        except Exception as e:
            run.fail({"subcheck": "roundtrip:explicit-environment", "exc": type(e).__name__}, case,
                     "parser given the environment explicitly raised %s: %s\n text=%s" % (type(e).__name__, str(e)[:200], text[:600]))
            continue
        run.cls("roundtrip:explicit-environment")
        if g3 is not g2:
            run.fail({"subcheck": "roundtrip:explicit-environment"}, case,
                     "SmtLibParser(environment=env), used while env is not the current environment, returns another "
                     "object than the same parser inside `with env:`\n parsed=%s\n text=%s" % (g3, text[:600]))


# ---------------------------------------------------------------- (b) script re-serialisation

def gen_command_script(rnd):
    g = G(cfg=Cfg(max_depth=3, theories={"bool", "int", "real", "bv", "arr", "uf", "sort", "str"}, bv_widths=[1, 4, 8],
                  share=30), rnd=rnd)
    tags = set()
    w = Writer(rnd, tags=tags, variation=False)
    forms = [g.term(BOOL, 3) for _ in range(rnd.randint(1, 3))]
    ints = [g.term(INT, 2) for _ in range(2)]
    bvs = [g.term(BV(4), 2) for _ in range(2)]
    ns = set()
    for f in forms + ints + bvs:
        ns |= {n for (n, _) in all_symbols(f)}
    FNS = {n for f in forms + ints + bvs for (n, ty_) in all_symbols(f) if is_fun(ty_)}
    m = names.hostile_mapping(rnd, ns, pct=35, functions=FNS, with_pow=any("POW" in B.ops_of(f) for f in forms + ints + bvs))
    forms = [names.rename(f, m) for f in forms]
    ints = [names.rename(f, m) for f in ints]
    bvs = [names.rename(f, m) for f in bvs]
    lines = []
    if rnd.random() < 0.5:
        lines.append("(set-logic %s)" % rnd.choice(["QF_AUFLIRA", "ALL", "QF_UFLIA", "QF_BV"]))
    if rnd.random() < 0.4:
        lines.append(rnd.choice(["(set-option :produce-models true)", "(set-option :vf-opt |a b|)",
                                 "(set-option :vf-opt |(x|)", "(set-option :random-seed 5)"]))
    if rnd.random() < 0.4:
        lines.append(rnd.choice(["(set-info :status sat)", "(set-info :source |a b c|)", "(set-info :smt-lib-version 2.6)"]))
    lines += declarations(forms + ints + bvs, w)
    if rnd.random() < 0.3:
        lines.append("(define-sort |My Int| () Int)")
        lines.append("(declare-fun |ms!| () |My Int|)")
        tags.add("define-sort")
    depth = 0
    body = []
    fi = 0
    ncmd = rnd.randint(3, 9)
    for _ in range(ncmd):
        k = rnd.randrange(14)
        if k <= 2:
            body.append("(assert %s)" % w.term(forms[fi % len(forms)]))
            fi += 1
        elif k == 3:
            n = rnd.randint(1, 2)
            body.append("(push %d)" % n)
            depth += n
        elif k == 4 and depth > 0:
            n = rnd.randint(1, min(2, depth))
            body.append("(pop %d)" % n)
            depth -= n
        elif k == 5:
            body.append("(check-sat)")
        elif k == 6:
            f = forms[fi % len(forms)]
            cands = [s for s in subterms(f) if s[2] and not (B.ops_of(s) & {"FORALL", "EXISTS"})]
            if cands:
                s0 = rnd.choice(cands)
                params = sorted((p for p in reffv(s0) if not is_fun(p[1])), key=repr)[:2]
                fname = rnd.choice(["g", "def 1", "f!x", "h"]) + str(len(body))
                if rnd.random() < 0.3:
                    # a name the DAG printer also uses for its let variables
                    cand = ".def_%d" % rnd.randrange(3)
                    if cand not in ns and cand not in m.values() and ("(define-fun %s " % cand) not in " ".join(body):
                        fname = cand
                        tags.add("define-fun-named-like-let")
                body.append("(define-fun %s (%s) %s %s)" % (
                    quote(fname), " ".join("(%s %s)" % (w.name(n), sort_text(t)) for (n, t) in params),
                    sort_text(reftype(s0)), w.term(s0)))
                tags.add("define-fun")
        elif k == 7:
            body.append("(get-value (%s))" % " ".join(w.term(t) for t in [ints[0], forms[0]]))
            tags.add("get-value")
        elif k == 8:
            opts = ""
            if rnd.random() < 0.6:
                opts += " :weight %s" % rnd.choice(["3", "1.5", "(- 2)", "0", "1.0", "1"])
            if rnd.random() < 0.6:
                opts += " :id %s" % rnd.choice(["goal", "g2", "|my goal|", "|goal :weight 7|", "|a(b|"])
            body.append("(assert-soft %s%s)" % (w.term(forms[fi % len(forms)]), opts))
            tags.add("assert-soft")
        elif k == 9:
            t = rnd.choice(ints + bvs)
            opts = ""
            if rnd.random() < 0.5:
                opts += " :id %s" % rnd.choice(["goal", "obj1", "|my obj|", "|o :signed|"])
            if reftype(t) != INT and rnd.random() < 0.5:
                opts += " :signed"
            body.append("(%s %s%s)" % (rnd.choice(["minimize", "maximize"]), w.term(t), opts))
            tags.add("objective")
        elif k == 10:
            ts = ints if rnd.random() < 0.5 else bvs
            opts = " :signed" if ts is bvs and rnd.random() < 0.5 else ""
            if rnd.random() < 0.5:
                ident = " :id %s" % rnd.choice(["goal", "mm1", "|my goal|", "|goal :signed|", "|a(b|"])
                opts = ident + opts if rnd.random() < 0.5 else opts + ident
            body.append("(%s %s%s)" % (rnd.choice(["minmax", "maxmin"]), " ".join(w.term(t) for t in ts), opts))
            tags.add("minmax")
        elif k == 11:
            body.append(rnd.choice(["(get-model)", "(get-objectives)", "(get-assignment)", "(get-unsat-core)",
                                    "(check-allsat)", "(load-objective-model 0)"]))
            tags.add("get-x")
        elif k == 12:
            body.append("(reset-assertions)")
            depth = 0
        else:
            body.append("(check-sat)")
    lines += body
    if rnd.random() < 0.3:
        lines.append("(exit)")
    return "\n".join(lines) + "\n", tags


def command_key(env, c):
    """Comparable view of a command's arguments (formulas stay objects)."""
    return (c.name, c.args)


def compare_commands(c1, c2, env):
    """-> None or a description of the difference."""
    if c1.name != c2.name:
        return "command names %s vs %s" % (c1.name, c2.name)
    if c1.name == smtcmd.DEFINE_FUN:
        n1, p1, r1, b1 = c1.args
        n2, p2, r2, b2 = c2.args
        if n1 != n2 or r1 != r2 or [p.symbol_type() for p in p1] != [p.symbol_type() for p in p2]:
            return "define-fun signature %r vs %r" % ((n1, r1), (n2, r2))
        b2r = env.substituter.substitute(b2, dict(zip(p2, p1))) if p1 else b2
        if b2r is not b1:
            return "define-fun body %s vs %s" % (b1, b2r)
        return None
    a1, a2 = list(c1.args), list(c2.args)
    if len(a1) != len(a2):
        return "%s: %d vs %d arguments" % (c1.name, len(a1), len(a2))

    def same(x, y):
        from pysmt.fnode import FNode
        if isinstance(x, FNode) or isinstance(y, FNode):
            if x is y:
                return True
            # the default weight of assert-soft is Int 1 whatever the logic; written back as ":weight 1" it is read as
            # Real 1.0 in logics whose numerals are Real - the only numeric difference that is tolerated
            try:
                return x.is_int_constant(1) and y.is_real_constant(1)
            except Exception:
                return False
        if isinstance(x, (list, tuple)) and isinstance(y, (list, tuple)):
            return len(x) == len(y) and all(same(u, v) for u, v in zip(x, y))
        if isinstance(x, dict) and isinstance(y, dict):
            return set(x) == set(y) and all(same(x[k], y[k]) for k in x)
        return x == y or str(x) == str(y)
    for x, y in zip(a1, a2):
        if not same(x, y):
            return "%s: argument %r vs %r" % (c1.name, x, y)
    return None


def check_script(run, text, tags):
    env = Environment()
    case = {"text": text}
    with env:
        try:
            s1 = with_timeout(5, lambda: SmtLibParser(env).get_script(StringIO(text)))
        except Timeout:
            return
        except Exception:
            run.discard("script-rejected")
            for t in tags:
                run.cls("script-rejected-tag:" + t)
            return
        run.case(key=text, nontrivial=bool(tags & {"assert-soft", "objective", "minmax", "define-fun", "get-value"}),
                 sample={"script": text[:300]} if len(text) < 300 else None)
        run.cls("script:parsed")
        for t in tags:
            run.cls("script-tag:" + t)
        for dag in (True, False):
            try:
                buf = StringIO()
                s1.serialize(buf, daggify=dag)
                text2 = buf.getvalue()
            except Exception as e:
                run.fail({"subcheck": "script:serialize-raised", "exc": type(e).__name__}, case,
                         "serialize raised %s: %s\n script=%s" % (type(e).__name__, str(e)[:200], text[:600]))
                continue
            try:
                s2 = with_timeout(5, lambda: SmtLibParser(env).get_script(StringIO(text2)))
            except Timeout:
                continue
            except Exception as e:
                cmd = _first_bad_command(env, s1, dag)
                run.fail({"subcheck": "script:reparse-raised", "command": cmd}, case,
                         "pySMT cannot parse its own re-serialisation (%s: %s)\n script=%s\n re-serialised=%s" % (
                             type(e).__name__, str(e)[:200], text[:500], text2[:700]))
                continue
            if len(s1.commands) != len(s2.commands):
                run.fail({"subcheck": "script:command-count"}, case,
                         "%d commands parsed, %d after re-serialisation\n script=%s\n re-serialised=%s" % (
                             len(s1.commands), len(s2.commands), text[:500], text2[:700]))
                continue
            for c1, c2 in zip(s1.commands, s2.commands):
                d = compare_commands(c1, c2, env)
                if d:
                    run.fail({"subcheck": "script:command-differs", "command": c1.name}, case,
                             "%s\n script=%s\n re-serialised=%s" % (d, text[:500], text2[:700]))
                    break


def _first_bad_command(env, s1, dag):
    for c in s1.commands:
        try:
            t = c.serialize_to_string(daggify=dag)
        except Exception:
            return c.name
    return "?"


# ---------------------------------------------------------------- (c) human-readable round trip

HR_KEYWORDS = {"True", "False", "xor", "bv2nat", "bvcomp", "ROR", "ROL", "ZEXT", "SEXT", "ToReal", "Int", "Real", "Bool",
               "forall", "exists", "Array", "BV", "str", "int", "a", "u", "s"}
ASSOC = {"AND", "OR", "PLUS", "TIMES", "BV_AND", "BV_OR", "BV_ADD", "BV_MUL", "BV_XOR", "BV_CONCAT", "STR_CONCAT"}


def flatten(b):
    memo = {}

    def go(t):
        k = id(t)
        if k in memo and memo[k][0] is t:
            return memo[k][1]
        op, params, ch = t
        ch2 = [go(c) for c in ch]
        if op in ASSOC:
            out = []
            for c in ch2:
                if c[0] == op:
                    out.extend(c[2])
                else:
                    out.append(c)
            ch2 = out
        r = (op, params, tuple(ch2))
        memo[k] = (t, r)
        return r
    return canon_arr(go(b))


def hr_name(rnd):
    """Names of the HR fragment: plain identifiers, or names that pysmt.utils.quote quotes (no ' and no backslash)."""
    k = rnd.randrange(10)
    if k < 5:
        return None
    if k < 8:
        return rnd.choice(["x y", "1a", "(", "x)", "#", "é", "a:b", "[i]", "a,b", " ", "a b c", "{}", "x;y", "0"])
    return rnd.choice(["Int1", "forall1", "_x", "X_1", "a0", "xor1", "ToReal_", "BV8"])


def check_hr(run, bp, g, cards):
    env = Environment()
    with env:
        try:
            f = pys.build(env, bp)
        except Exception:
            run.discard("rejected-by-constructor")
            return
        b0 = pys.decode(f)
        try:
            t0 = reftype(b0)
        except IllTyped:
            return
        case = {"bp": bp, "cards": cards}
        try:
            text = f.serialize()
        except Exception as e:
            run.fail({"subcheck": "hr:serialize-raised"}, case, "%s: %s" % (type(e).__name__, e))
            return
        if "String}" in text or "{String" in text:
            run.discard("hr:outside-fragment(String sort name)")      # the HR lexer has no String type token
            return
        nontriv = B.size(b0) >= 4
        run.case(key=text, nontrivial=nontriv, sample={"hr": text[:200]} if len(text) < 200 and nontriv else None)
        try:
            g2 = with_timeout(5, lambda: HRParser(env).parse(text))
        except Timeout:
            run.discard("timeout")
            return
        except Exception as e:
            run.cls("hr:rejected")
            run.fail({"subcheck": "hr:parse-raised", "exc": type(e).__name__}, case,
                     "HRParser cannot parse the serialisation: %s: %s\n formula=%s\n text=%s" % (
                         type(e).__name__, str(e)[:200], show(b0), text[:400]))
            return
        run.cls("hr:parsed")
        b1 = pys.decode(g2)
        try:
            t1 = reftype(b1)
        except IllTyped as e:
            run.fail({"subcheck": "hr:illtyped"}, case, str(e))
            return
        if t0 != t1:
            run.fail({"subcheck": "hr:type"}, case, "type %r -> %r\n text=%s" % (t0, t1, text[:400]))
            return
        if g2 is f:
            run.cls("hr:identical")
        elif flatten(collapse_stores(b1)) != flatten(collapse_stores(b0)):
            run.fail({"subcheck": "hr:structure"}, case,
                     "HR round trip changes more than the grouping of n-ary operators\n formula=%s\n parsed =%s\n text=%s" % (
                         show(b0), show(b1), text[:400]))
            return
    syms = sorted(reffv(b0), key=repr)
    interps = exhaustive_interps(syms, cards, cap=32) or [g.interp(syms, cards) for _ in range(6)]
    try:
        for I in interps:
            v0 = Evaluator(I, cards, window={INT: [-1, 0, 2], REAL: [Fraction(-1), Fraction(1, 2)]}).eval(b0)
            v1 = Evaluator(I, cards, window={INT: [-1, 0, 2], REAL: [Fraction(-1), Fraction(1, 2)]}).eval(b1)
            if canon(v0, t0, cards) != canon(v1, t0, cards):
                run.fail({"subcheck": "hr:value"}, case, "value %r -> %r under %r\n text=%s" % (v0, v1, I, text[:400]))
                return
    except (Unconstrained, NoSemantics):
        run.discard("no-semantics")


RT_CFGS = [Cfg(max_depth=4, quant_unbounded=True, sorts=PSORTS), Cfg(max_depth=3, share=15),
           Cfg(max_depth=4, theories={"bool", "int", "real", "arr", "uf", "quant"}, quant_unbounded=True, pow=True)]
HR_CFG = Cfg(max_depth=4, theories={"bool", "int", "real", "bv", "arr", "uf", "str", "quant"}, quant_unbounded=True,
             bv_widths=[1, 4, 8], strings=["", "a", "ab", "0", "x y", "12"], pow=True)


def shard(shard, seed, n, part):
    run = Run(PID)

    def body(rnd):
        if part == "roundtrip":
            g = G(cfg=RT_CFGS[shard % len(RT_CFGS)], rnd=rnd)
            t = g.term(BOOL if g.pct(70) else g.ty())
            ns = {x for (x, _) in all_symbols(t)}
            FNS = {x for (x, ty_) in all_symbols(t) if is_fun(ty_)}
            m = names.hostile_mapping(rnd, ns, pct=50, allow_bar_backslash=True, functions=FNS, with_pow="POW" in B.ops_of(t))
            check_roundtrip(run, names.rename(t, m), g, g.cards())
        elif part == "script":
            text, tags = gen_command_script(rnd)
            check_script(run, text, tags)
        else:
            g = G(cfg=HR_CFG, rnd=rnd)
            t = g.term(BOOL if g.pct(60) else g.ty())
            m = {}
            for (nme, _) in all_symbols(t):
                h = hr_name(rnd)
                if h and h not in m.values():
                    m[nme] = h
            check_hr(run, names.rename(t, m), g, g.cards())
    drive(body, st.randoms(use_true_random=True), n, derive_seed(seed, "c09", part, shard))
    return run


def shard_enum(shard, nshards, stride, offset):
    """Bounded-exhaustive: SMT-LIB and human-readable round trips of every one- / two-operator term."""
    import itertools
    import random
    from vf import enumterms
    run = Run(PID)
    g = G(cfg=HR_CFG, rnd=random.Random(0))
    idx = 0
    for t in itertools.chain((x for v in enumterms.depth1().values() for x in v), enumterms.depth2()):
        idx += 1
        if idx % nshards != shard or (idx // nshards) % stride != offset % stride:
            continue
        check_roundtrip(run, t, g, {})
        check_hr(run, t, g, {})
        run.cls("enumerated-two-operator-term")
    return run


def main():
    chk = Check(PID, "exploration", RULE, assumptions=[
        "round trips are judged by object identity in the same environment (hash-consing, C04)",
        "array values come back as store chains: compared after collapsing stores over constant arrays on both sides",
        "HR fragment: identifiers without ' and backslash, string constants without double quotes; a parse error in the "
        "HR parser is counted as outside the fragment (reported per operator in the evidence), a misparse is a violation"])
    thorough = chk.tier == "thorough"
    per = 15000 if thorough else 1000
    jobs = [(shard, dict(shard=s, seed=chk.seed, n=per, part="roundtrip")) for s in range(6)]
    jobs += [(shard, dict(shard=s, seed=chk.seed, n=per, part="script")) for s in range(5)]
    jobs += [(shard, dict(shard=s, seed=chk.seed, n=per, part="hr")) for s in range(5)]
    jobs += [(shard_enum, dict(shard=s, nshards=16, stride=1 if thorough else 16, offset=chk.seed)) for s in range(16)]
    chk.add(run_shards(jobs))
    for c in ("roundtrip:dag", "roundtrip:quoted-name", "roundtrip:array-value-as-stores", "script:parsed",
              "script-tag:assert-soft", "script-tag:objective", "script-tag:define-fun", "hr:parsed"):
        chk.floor(c, 150)
    return chk.finish()


def replay(rec):
    import random
    run = Run(PID, known=[])
    c = rec["case"]
    g = G(cfg=RT_CFGS[0], rnd=random.Random(0))
    if "text" in c:
        check_script(run, c["text"], set())
    elif "daggify" in c:
        check_roundtrip(run, c["bp"], g, c["cards"])
    else:
        check_hr(run, c["bp"], g, c["cards"])
    if run.violations:
        print("VIOLATION property=%s replay=(replayed)" % PID)
        print(run.violations[0]["detail"])
        return 1
    print("replay: no violation")
    return 0
