"""C05 - substitution obeys the substitution lemma and the documented MGS / MSS replacement order."""
import warnings

from hypothesis import strategies as st

from pysmt.environment import Environment
from pysmt.substituter import MGSubstituter, MSSubstituter, FunctionInterpretation

from vf import bp as B
from vf.bp import BOOL, INT, REAL, STRING, BV, SORT, is_bv, is_arr, is_fun, is_sort, show, subterms, sym
from vf.refsem import (Evaluator, reftype, reffv, all_symbols, IllTyped, Unconstrained, NoSemantics, canon)
from vf.gen import G, Cfg, exhaustive_interps, symname
from vf.harness import Run, Check, run_shards, drive, derive_seed
from vf import pys

warnings.filterwarnings("ignore")

PID = "C05"
RULE = ("formulas with nested / shadowing binders over finite sorts and shared sub-DAGs x type-correct maps: (a) symbol "
        "keys (free, bound or both) -> terms over symbols bound nowhere in the formula: value of the result under I must "
        "equal the value of the original under I updated with the values of the replacements (reference evaluator with its "
        "own shadowing rules), for MGS and MSS; (b) arbitrary sub-term keys (overlapping, nested, mentioning bound "
        "variables): the result must be the same object as an independent recursive definition of MGS / MSS with the "
        "documented binder rule; (c) function interpretations: no application of an interpreted symbol remains and the value "
        "is that of the original with the symbol interpreted by the body.  non-trivial = a key occurs in the formula; "
        "distinct by (blueprint, map) hash")

FCFG = Cfg(max_depth=4, theories={"bool", "int", "real", "bv", "arr", "uf", "sort", "quant", "str"},
           bv_widths=[1, 2, 4], quant_types=[BOOL, BV(1), BV(2), SORT("S1")], share=30, pow=True)
RCFG = Cfg(max_depth=2, theories={"bool", "int", "real", "bv", "arr", "sort", "str"}, bv_widths=[1, 2, 4],
           sym_offset=3, share=10)
RCFG_CAPTURE = Cfg(max_depth=2, theories={"bool", "int", "real", "bv", "arr", "sort", "str"}, bv_widths=[1, 2, 4], share=10)


# ---- independent recursive definitions (on FNodes, compared by identity)

def _fv_names(env, k):
    return {n for (n, _) in reffv(pys.decode(k))}


def ref_subst(env, f, subs, interps, mode):
    """mode 'mgs' | 'mss'.  interps: fname FNode -> (params FNodes, body FNode)."""
    def go(n, subs):
        if n.is_quantifier():
            qn = {v.symbol_name() for v in n.quantifier_vars()}
            inner = {k: v for k, v in subs.items() if not (_fv_names(env, k) & qn)}
            # (the sub-terms below a matched key are still rewritten - and may be rejected by a
            #  constructor - before the key is looked up; an error there is an accepted rejection)
            body = go(n.arg(0), inner)
            if mode == "mgs" and n in subs:
                return subs[n]
            new = pys.rebuild(env, n, [body])
            if mode in ("mss", "mss-strict"):
                return subs.get(new, new)
            return new
        args = [go(a, subs) for a in n.args()]
        if mode == "mgs" and n in subs:
            return subs[n]
        if n.is_function_application() and n.function_name() in interps:
            params, body = interps[n.function_name()]
            new = ref_subst(env, body, dict(zip(params, args)), {}, mode)
        else:
            new = pys.rebuild(env, n, args)
        if mode in ("mss", "mss-strict") and new.is_symbol() and not n.is_symbol():
            return new          # a constructor collapsed the rebuilt term onto a symbol: not an occurrence of a key
        if mode in ("mss", "mss-strict"):
            return subs.get(new, new)
        return new
    return go(f, subs)


def run_both(env, f, subs, interps):
    """-> list of (mode, pysmt outcome, reference outcome); outcome = ('ok', node) | ('raised', type)"""
    out = []
    pin = {k: FunctionInterpretation(list(p), b) for k, (p, b) in interps.items()}
    for mode, cls in (("mgs", MGSubstituter), ("mss", MSSubstituter)):
        try:
            got = ("ok", cls(env).substitute(f, subs, interpretations=pin or None))
        except Exception as e:
            got = ("raised", type(e).__name__)
        try:
            ref = ("ok", ref_subst(env, f, subs, interps, mode))
        except Exception as e:
            ref = ("raised", type(e).__name__)
        out.append((mode, got, ref))
    return out


def check_case(run, fbp, keys, vals, interp_defs, kind, g, cards):
    """keys/vals: blueprints; interp_defs: list of (fname, ftype, param syms, body bp)."""
    env = Environment()
    with env:
        try:
            f = pys.build(env, fbp)
            subs = {}
            for k, v in zip(keys, vals):
                subs[pys.build(env, k)] = pys.build(env, v)
            interps = {}
            for (fn, ft, params, body) in interp_defs:
                interps[pys.build(env, sym(fn, ft))] = ([pys.build(env, sym(*p)) for p in params], pys.build(env, body))
        except Exception:
            run.discard("rejected-by-constructor")
            return
        b0 = pys.decode(f)
        kd = [pys.decode(k) for k in subs]
        occurs = any(k in set(subterms(b0)) or (k[0] == "SYMBOL" and k[1] in all_symbols(b0)) for k in kd) or \
            any(s[0] == "FUNCTION" and s[1][0] == d[0] for d in interp_defs for s in subterms(b0))
        case = {"formula": fbp, "keys": keys, "vals": vals, "interps": interp_defs, "kind": kind, "cards": cards}
        run.case(key=(fbp, keys, vals, [d[0] for d in interp_defs]), nontrivial=occurs,
                 sample={"formula": show(b0, 140), "map": {show(k, 40): show(v, 40) for k, v in zip(keys, vals)},
                         "interpretations": [d[0] for d in interp_defs]} if occurs and len(keys) >= 2 else None)
        run.cls("kind:" + kind)
        bound = {v for s in subterms(b0) if s[0] in ("FORALL", "EXISTS") for v in s[1]}
        if any(k[0] == "SYMBOL" and k[1] in bound for k in kd):
            run.cls("key-symbol-bound-somewhere")
        if any(a is not b and a in set(subterms(b)) for a in kd for b in kd):
            run.cls("overlapping-keys")
        if any(k not in set(subterms(b0)) and k[0] != "SYMBOL" for k in kd):
            run.cls("key-appears-only-after-replacement")
        if bound:
            run.cls("has-binder")
        results = run_both(env, f, subs, interps)
        # the environment's default substituter must be MGS
        try:
            dflt = ("ok", env.substituter.substitute(f, subs, interpretations={k: FunctionInterpretation(list(p), b) for k, (p, b) in interps.items()} or None))
        except Exception as e:
            dflt = ("raised", type(e).__name__)
        # the convenience entry points (FNode.substitute, shortcuts.substitute) are the default substituter too;
        # an empty map may be given as None
        fis = {k: FunctionInterpretation(list(p), b) for k, (p, b) in interps.items()} or None
        for label, call in (("FNode.substitute", lambda: f.substitute(subs or None, interpretations=fis)),
                            ("shortcuts.substitute", lambda: __import__("pysmt.shortcuts", fromlist=["substitute"]).substitute(f, subs or None, interpretations=fis))):
            try:
                alt = ("ok", call())
            except Exception as e:
                alt = ("raised", type(e).__name__)
            if alt != dflt and not (alt[0] == "raised" and dflt[0] == "raised"):
                run.fail({"subcheck": "subst:entry-point-differs", "entry": label}, case,
                         "%s gives %r, env.substituter.substitute %r\n formula=%s" % (label, alt, dflt, show(b0, 300)))
        if kind in ("terms", "interp-projection") and g.pct(30):
            # an environment configured for the most specific strategy (Environment.SubstituterClass)
            class MSEnvironment(Environment):
                SubstituterClass = MSSubstituter
            env2 = MSEnvironment()
            with env2:
                try:
                    f2 = pys.build(env2, fbp)
                    subs2 = {pys.build(env2, k): pys.build(env2, v) for k, v in zip(keys, vals)}
                    fis2 = {pys.build(env2, sym(fn, ft)): FunctionInterpretation([pys.build(env2, sym(*p_)) for p_ in params_], pys.build(env2, body_))
                            for (fn, ft, params_, body_) in interp_defs} or None
                    outs = []
                    for call in (lambda: env2.substituter.substitute(f2, subs2, interpretations=fis2),
                                 lambda: f2.substitute(subs2 or None, interpretations=fis2),
                                 lambda: MSSubstituter(env2).substitute(f2, subs2, interpretations=fis2)):
                        try:
                            outs.append(("ok", call()))
                        except Exception as e:
                            outs.append(("raised", type(e).__name__))
                    run.cls("environment-configured-for-mss")
                    if any(o != outs[2] for o in outs[:2]) and not all(o[0] == "raised" for o in outs):
                        run.fail({"subcheck": "subst:configured-class-ignored"}, case,
                                 "Environment with SubstituterClass = MSSubstituter: env.substituter / FNode.substitute give %r / %r, "
                                 "MSSubstituter gives %r" % (outs[0], outs[1], outs[2]))
                except Exception:
                    run.discard("rejected-by-constructor")
        if dflt != results[0][1] and not (dflt[0] == "raised" and results[0][1][0] == "raised"):
            run.fail({"subcheck": "subst:default-is-not-mgs"}, case, "env.substituter gives %r, MGSubstituter %r" % (dflt, results[0][1]))
        for mode, got, ref in results:
            if kind == "capture":
                continue       # proviso violated on purpose: only required not to crash the harness
            if got[0] != ref[0]:
                run.fail({"subcheck": "subst:%s-outcome" % mode, "kind": kind}, case,
                         "%s: pysmt %r vs reference definition %r\n formula=%s\n map=%s" % (
                             mode, got, ref, show(b0), {show(k): show(v) for k, v in zip(keys, vals)}))
                continue
            if got[0] == "raised":
                run.discard("both-raise")
                continue
            if got[1] is not ref[1]:
                run.fail({"subcheck": "subst:%s-replacement-order" % mode, "kind": kind}, case,
                         "%s result differs from the recursive definition\n formula=%s\n map=%s\n pysmt=%s\n reference=%s" % (
                             mode, show(b0), {show(k): show(v) for k, v in zip(keys, vals)},
                             show(pys.decode(got[1])), show(pys.decode(ref[1]))))
        # ---- semantic part
        if kind not in ("symbols", "interp", "interp-projection"):
            return
        syms = set(all_symbols(b0))
        for v in vals:
            syms |= all_symbols(v)
        for d in interp_defs:
            syms |= all_symbols(d[3])
        syms = sorted((s for s in syms if not any(s[0] == d[0] for d in interp_defs)), key=repr)
        interps_list = exhaustive_interps(syms, cards, cap=64) or [g.interp(syms, cards) for _ in range(8)]
        outs = [(m, got[1]) for (m, got, ref) in results if got[0] == "ok"]
        try:
            ty = reftype(b0)
            for I in interps_list:
                I2 = dict(I)
                for k, v in zip(keys, vals):
                    I2[k[1][0]] = Evaluator(I, cards).eval(v)
                for (fn, ft, params, body) in interp_defs:
                    def fun(cargs, params=params, body=body, I=I):
                        J = dict(I)
                        for p, a in zip(params, cargs):
                            J[p[0]] = a
                        return Evaluator(J, cards).eval(body)
                    I2[fn] = fun
                want = Evaluator(I2, cards).eval(b0)
                for mode, res in outs:
                    rb = pys.decode(res)
                    if any(s[0] == "FUNCTION" and any(s[1][0] == d[0] for d in interp_defs) for s in subterms(rb)):
                        run.fail({"subcheck": "subst:%s-interpretation-left" % mode}, case,
                                 "an application of an interpreted symbol remains: %s" % show(rb))
                        continue
                    got = Evaluator(I, cards).eval(rb)
                    if canon(got, ty, cards) != canon(want, ty, cards):
                        sig = {"subcheck": "subst:%s-lemma" % mode, "kind": kind}
                        if mode == "mss":
                            # would most-specific substitution that does not look a rebuilt term up again when a
                            # constructor collapsed it onto a symbol satisfy the lemma here?
                            try:
                                alt = pys.decode(ref_subst(env, f, subs, interps, "mss-strict"))
                                if canon(Evaluator(I, cards).eval(alt), ty, cards) == canon(want, ty, cards):
                                    sig["class"] = "rebuilt-term-collapsed-onto-a-key-symbol"
                            except Exception:
                                pass
                        run.fail(sig, case,
                                 "%s: value of the result %r != value of the original under the updated interpretation %r\n"
                                 " formula=%s\n map=%s\n result=%s\n interpretation=%r" % (
                                     mode, got, want, show(b0), {show(k): show(v) for k, v in zip(keys, vals)}, show(rb), I))
                        return
            run.cls("lemma-evaluated")
        except (Unconstrained, NoSemantics):
            run.discard("no-semantics")


def gen_case(rnd):
    g = G(cfg=FCFG, rnd=rnd)
    f = g.term(BOOL if g.pct(70) else g.ty())
    cards = g.cards()
    kind = g.weighted([(5, "symbols"), (4, "terms"), (3, "interp"), (1, "capture")])
    if kind == "interp" and g.pct(70):
        # make sure an application of a function with two parameters of one sort occurs (possibly under the
        # formula's binders): its actual arguments are terms over the formula's symbols
        T = g.choice([INT, REAL, BV(2), BOOL, INT])
        R = g.choice([T, BOOL, INT])
        ft_ = ("Fun", R, (T, T))
        ap = ("FUNCTION", ("fi2_%s_%s" % (B.tystr(T), B.tystr(R)), ft_), (g.term(T, 2), g.term(T, 2)))
        atom = ap if R == BOOL else ("EQUALS", (), (ap, g.term(R, 1)))
        try:
            fb_ = f if reftype(f) == BOOL else ("EQUALS", (), (f, f))
        except IllTyped:
            fb_ = atom
        f = ("AND", (), (atom, fb_)) if g.pct(50) else ("OR", (), (fb_, ("NOT", (), (atom,))))
    keys, vals, idefs = [], [], []
    if kind == "interp" and g.pct(20):
        # an interpretation that is a projection (its body is one formal parameter) applied to bare symbols, together
        # with a chain of symbol keys a -> x1 -> x2: the application collapses onto x1, which is the result (a value
        # put in by the substitution is not looked up again, under either strategy)
        T = g.choice([INT, REAL, BV(2), BOOL, INT])
        ft_ = ("Fun", T, (T, T))
        a_, b_ = sym("pj_a", T), sym("pj_b", T)
        ap = ("FUNCTION", ("fpj_%s" % B.tystr(T), ft_), (a_, b_) if g.pct(50) else (b_, a_))
        atom = ap if T == BOOL else ("EQUALS", (), (ap, g.term(T, 1)))
        try:
            fb_ = f if reftype(f) == BOOL else ("EQUALS", (), (f, f))
        except IllTyped:
            fb_ = atom
        f = ("AND", (), (atom, fb_))
        params = [("fp0_%s" % B.tystr(T), T), ("fp1_%s" % B.tystr(T), T)]
        idefs.append((ap[1][0], ft_, params, sym(*g.choice(params))))
        x1, x2 = sym("pj_x1", T), sym("pj_x2", T)
        keys += [a_, x1, b_]
        vals += [x1, x2, g.choice([x2, a_, x1])]
        return f, tuple(keys), tuple(vals), idefs, "interp-projection", g, cards
    allsyms = sorted((s for s in all_symbols(f) if not is_fun(s[1])), key=repr)
    if kind in ("symbols", "capture"):
        gr = G(cfg=RCFG if kind == "symbols" else RCFG_CAPTURE, rnd=rnd)
        n = g.weighted([(4, 1), (4, 2), (2, 3)])
        for s in g.rnd.sample(allsyms, min(n, len(allsyms))):
            keys.append(sym(*s))
            vals.append(gr.term(s[1], 2))
    elif kind == "terms":
        gr = G(cfg=RCFG_CAPTURE, rnd=rnd)
        subs = [s for s in subterms(f)]
        cand = []
        for s in subs:
            try:
                t = reftype(s)
            except IllTyped:
                continue
            if not is_fun(t):
                cand.append((s, t))
        n = g.weighted([(3, 1), (4, 2), (3, 3)])
        picked = g.rnd.sample(cand, min(n, len(cand)))
        for (s, t) in picked:
            keys.append(s)
            if g.pct(30) and len(picked) > 1:
                # value mentions another key (chains for MSS)
                other = [p for p in picked if p[1] == t and p[0] is not s]
                vals.append(other[0][0] if other else gr.term(t, 1))
            else:
                vals.append(gr.term(t, 1))
        if g.pct(50) and picked:
            # a key that only exists after an inner replacement (what most-specific substitution matches)
            k1, v1 = keys[0], vals[0]
            sup = [s for (s, t) in cand if s is not k1 and k1 in set(subterms(s)) and B.size(s) <= B.size(k1) + 6]
            if sup:
                s0 = g.rnd.choice(sup)
                s1 = replace_bp(s0, k1, v1)
                if s1 not in keys:
                    try:
                        t = reftype(s1)
                        keys.append(s1)
                        vals.append(gr.term(t, 1))
                    except IllTyped:
                        pass
    else:
        funs = sorted({s[1] for s in subterms(f) if s[0] == "FUNCTION"}, key=repr)
        gr = G(cfg=Cfg(max_depth=2, theories={"bool", "int", "real", "bv", "str", "sort", "arr"}, bv_widths=[1, 2, 4], nsyms=1, sym_offset=7), rnd=rnd)
        for (fn, ft) in g.rnd.sample(funs, min(2, len(funs))):
            params = [("fp%d_%s" % (i, B.tystr(t)), t) for i, t in enumerate(ft[2])]
            if g.pct(50):
                # formal parameters named like symbols of the formula (they may occur in the actual arguments:
                # the parameters are bound simultaneously)
                used = set()
                named = []
                for i, t in enumerate(ft[2]):
                    cands = [s_ for s_ in allsyms if s_[1] == t and s_ not in used]
                    if cands:
                        c_ = g.rnd.choice(cands)
                        used.add(c_)
                        named.append(c_)
                    else:
                        named.append(params[i])
                params = named
                # a later formal parameter named like a symbol of an earlier actual argument (binding the
                # parameters one after the other would rewrite that argument again)
                apps = [x for x in subterms(f) if x[0] == "FUNCTION" and x[1][0] == fn]
                if apps and len(params) >= 2 and g.pct(70):
                    ap = g.rnd.choice(apps)
                    for j in range(1, len(params)):
                        earlier = set()
                        for a_ in ap[2][:j]:
                            earlier |= {s_ for s_ in reffv(a_) if s_[1] == ft[2][j]}
                        earlier -= set(params[:j]) | set(params[j + 1:])
                        if earlier:
                            params[j] = g.rnd.choice(sorted(earlier, key=repr))
            # body over the formal parameters only
            body = gr.term(ft[1], 2)
            # rename the symbols of the body to formal parameters of the same type where possible
            ren = {}
            for s in sorted(all_symbols(body), key=repr):
                same = [p for p in params if p[1] == s[1]]
                ren[s] = g.rnd.choice(same) if same else None
            if any(v is None for v in ren.values()):
                body = gr.constant(ft[1]) if gr.has_consts(ft[1]) else None
                if body is None:
                    continue
            else:
                body = rename(body, ren)
            idefs.append((fn, ft, params, body))
        if g.pct(40) and allsyms:
            s = g.rnd.choice(allsyms)
            keys.append(sym(*s))
            vals.append(G(cfg=RCFG, rnd=rnd).term(s[1], 1))
    return f, tuple(keys), tuple(vals), idefs, kind, g, cards


def replace_bp(bp, k, v):
    if bp == k:
        return v
    op, params, ch = bp
    return (op, params, tuple(replace_bp(c, k, v) for c in ch))


def rename(bp, ren):
    op, params, ch = bp
    if op == "SYMBOL":
        return sym(*ren[params]) if params in ren else bp
    return (op, params, tuple(rename(c, ren) for c in ch))


def shard(shard, seed, n):
    run = Run(PID)

    def body(rnd):
        f, keys, vals, idefs, kind, g, cards = gen_case(rnd)
        check_case(run, f, keys, vals, idefs, kind, g, cards)
    drive(body, st.randoms(use_true_random=True), n, derive_seed(seed, "c05", shard))
    return run


def shard_enum(shard, nshards, stride, offset):
    """Bounded-exhaustive: symbol maps (single, swapping, onto an atom / a negation) on every formula with at most
    two connectives / Boolean quantifiers; maps whose replacement mentions a symbol bound somewhere in the
    formula are the capture class (executed, not judged)."""
    import random
    from vf import enumterms
    from vf.refsem import reffv
    run = Run(PID)
    g = G(cfg=FCFG, rnd=random.Random(offset))
    P, Q = sym("p", BOOL), sym("q", BOOL)
    I_, J_ = sym("i", INT), sym("j", INT)
    atom = ("LT", (), (I_, J_))
    maps = [((P,), (atom,)), ((P,), (("NOT", (), (P,)),)), ((P,), (Q,)), ((Q,), (P,)), ((P, Q), (Q, P)),
            ((I_,), (J_,)), ((I_, J_), (J_, I_)), ((P, I_), (("IFF", (), (P, Q)), ("PLUS", (), (I_, ("CONST", (INT, 1), ()))))),
            ((atom,), (P,)), ((("NOT", (), (P,)),), (Q,))]
    for idx, f in enumerate(enumterms.bool_quant_terms()):
        if idx % nshards != shard or (idx // nshards) % stride != offset % stride:
            continue
        bound = {v for t in subterms(f) if t[0] in ("FORALL", "EXISTS") for v in t[1]}
        for keys, vals in maps:
            symbolic = all(k[0] == "SYMBOL" for k in keys)
            fv = set()
            for v in vals:
                fv |= reffv(v)
            kind = "capture" if (fv & bound) else ("symbols" if symbolic else "terms")
            check_case(run, f, keys, vals, [], kind, g, {})
        run.cls("enumerated-connective-combination")
    return run


def main():
    chk = Check(PID, "exploration", RULE, assumptions=[
        "reference evaluator vf/refsem.py (own shadowing rules); quantifiers over finite sorts only",
        "documented binder rule: entering a quantifier drops every key that mentions one of its variables",
        "replacement terms use symbols that are bound nowhere in the formula (the property's proviso); the "
        "capture class that violates it is only executed, not judged"])
    thorough = chk.tier == "thorough"
    jobs = [(shard, dict(shard=s, seed=chk.seed, n=40000 if thorough else 2000)) for s in range(16)]
    jobs += [(shard_enum, dict(shard=s, nshards=16, stride=1 if thorough else 3, offset=chk.seed)) for s in range(16)]
    chk.add(run_shards(jobs))
    chk.floor("key-symbol-bound-somewhere", 300)
    chk.floor("overlapping-keys", 300)
    chk.floor("key-appears-only-after-replacement", 300)
    chk.floor("kind:interp", 1000)
    chk.floor("lemma-evaluated", 3000)
    return chk.finish()


def replay(rec):
    import random
    run = Run(PID, known=[])
    c = rec["case"]
    g = G(cfg=FCFG, rnd=random.Random(0))
    idefs = [tuple(d) for d in c["interps"]]
    check_case(run, c["formula"], tuple(c["keys"]), tuple(c["vals"]), idefs, c["kind"], g, c["cards"])
    if run.violations:
        print("VIOLATION property=%s replay=(replayed)" % PID)
        print(run.violations[0]["detail"])
        return 1
    print("replay: no violation")
    return 0
