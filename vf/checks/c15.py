"""C15 - a failing call leaves no trace: later calls behave as if it never happened."""
import warnings
from io import StringIO

from hypothesis import strategies as st

from pysmt.environment import Environment
from pysmt.smtlib.parser import SmtLibParser

from vf import bp as B
from vf.bp import BOOL, INT, REAL, STRING, BV, is_bv, is_fun, show, subterms, sym, const, app
from vf.refsem import reftype, reffv, all_symbols, IllTyped
from vf.gen import G, Cfg
from vf.harness import Run, Check, run_shards, drive, derive_seed
from vf import pys
from vf.twin import (SERVICES, BOOL_ONLY, run_call, outcome_key, related_formulas, random_call)
from vf.smtprint import Writer, declarations

warnings.filterwarnings("ignore")

PID = "C15"
RULE = ("histories of service calls over formulas overlapping a probe formula into which failing calls are injected: "
        "ill-typed construction (per constructor family), ill-typed substitution with the offending key chosen among ALL "
        "symbols of the traversed formula (so the rebuild fails at every position of the traversal), unsupported operator "
        "inside a walker (cnf / Shannon QE on a quantified formula nested at every depth, unknown size measure), undefined "
        "symbol (get_symbol, HR parse), malformed / ill-typed SMT-LIB text given to a long-lived parser object (inside a "
        "let, a quantifier, a define-fun, mid-script), Array with a non-constant index, FunctionInterpretation with free "
        "variables.  A twin environment executes the same history without the calls that raised; then the complete list "
        "of probe services runs on both: every result must be equal (AC-canonical key) and every probe must raise iff "
        "the twin raises.  non-trivial = the exception left from inside a traversal and a later probe uses the same "
        "service on an overlapping formula; distinct by (history, probe) hash")

CFG = Cfg(max_depth=3, theories={"bool", "int", "real", "bv", "arr", "uf", "quant"}, bv_widths=[1, 2, 4],
          quant_types=[BOOL, BV(1), INT], share=35, nsyms=2)

FAIL_KINDS = ["construct", "substitute", "cnf-quantified", "qelim-nonbool", "size-measure", "get-symbol", "hr-parse",
              "smtlib-parse", "array-nonconst-key", "fi-free-vars", "custom-operator", "model-text", "malformed-declaration",
              "with-block-raises", "generic-solver-redefinition", "command-generator", "construct-equal-key", "empty-preference-list", "simplify-custom-walker"]
DECL_NAME = "c15 declared name"
ENV_ONLY = "c15 env only"
GENERIC_NAME = "c15-generic-solver"


def _register_custom_operator():
    """A user-defined node type known to the type checker and the free-variable oracle only: every other walker
    meets an unsupported operator in the middle of its traversal.  (Registered before any Environment exists: the
    walkers read the table of node types when they are created.)"""
    import pysmt.operators as op
    import pysmt.typing as pt
    from pysmt.type_checker import SimpleTypeChecker
    from pysmt.oracles import FreeVarsOracle
    nt = op.new_node_type(node_str="VF_UNSUPPORTED")
    SimpleTypeChecker.set_handler(lambda self, formula, args, **kwargs: pt.BOOL if args[0] == pt.BOOL else None, nt)
    FreeVarsOracle.set_handler(FreeVarsOracle.walk_simple_args, nt)
    return nt


MYOP = _register_custom_operator()
CUSTOM_SERVICES = ["simplify", "substitute", "nnf", "aig", "serialize", "to_smtlib", "dag-printer", "size", "theory", "atoms"]


class World(object):
    """An environment with its long-lived objects."""

    def __init__(self):
        self.env = Environment()
        with self.env:
            self.parser = SmtLibParser(self.env)
            # a symbol of the environment that no text ever declares to the parser
            self.env.formula_manager.Symbol(ENV_ONLY, self.env.type_manager.INT())
        from pysmt.smtlib.printers import SmtDagPrinter
        self.dagprinter = SmtDagPrinter(StringIO())          # a long-lived printer object
        self.generic = False
        self.factory_used = False
        self.cg_declared = False

    def ensure_cg_declared(self):
        """The symbol that the command-generator probes talk about is declared (through the generator interface, which
        does not reset the parser).  It is declared again only after a call that resets the parser by design (get_script,
        parse_model): a declaration that a failing command made disappear must stay gone, so that the probe sees it."""
        if not self.cg_declared:
            list(self.parser.get_command_generator(StringIO("(declare-fun cgx () Int)\n")))
            self.cg_declared = True

    def parser_was_reset(self):
        self.cg_declared = False

    def ensure_generic_solver(self):
        """(lazily: creating a Factory probes for every solver wrapper)"""
        if not self.generic:
            from pysmt.logics import QF_UFLIRA
            self.env.factory.add_generic_solver(GENERIC_NAME, ["/opt/first/solver", "-in"], [QF_UFLIRA])
            self.generic = True
        self.last_exc = None

    def dag_print(self, f):
        buf = StringIO()
        self.dagprinter.stream = buf
        self.dagprinter.write = buf.write
        self.dagprinter.printer(f)
        return buf.getvalue()


def wrong_typed(ty):
    if ty == BOOL:
        return const(INT, 3)
    return const(BOOL, True)


def do_fail(world, fail):
    """Execute an injected failing call.  -> True iff it raised (only then is it a 'failing call')."""
    env = world.env
    kind = fail[0]
    with env:
        mgr = env.formula_manager
        try:
            if kind == "construct":
                _, ctor, bps = fail
                args = [pys.build(env, b) for b in bps]
                getattr(mgr, ctor)(*args)
            elif kind == "substitute":
                _, fbp, key, val = fail
                f = pys.build(env, fbp)
                env.substituter.substitute(f, {pys.build(env, key): pys.build(env, val)})
            elif kind == "cnf-quantified":
                import pysmt.rewritings as rw
                rw.cnf(pys.build(env, fail[1]), env)
            elif kind == "qelim-nonbool":
                from pysmt.solvers.qelim import ShannonQuantifierEliminator
                ShannonQuantifierEliminator(env).eliminate_quantifiers(pys.build(env, fail[1]))
            elif kind == "size-measure":
                env.sizeo.get_size(pys.build(env, fail[1]), 99)
            elif kind == "get-symbol":
                mgr.get_symbol(fail[1])
            elif kind == "hr-parse":
                from pysmt.parsing import HRParser
                HRParser(env).parse(fail[1])
            elif kind == "smtlib-parse":
                world.parser_was_reset()
                world.parser.get_script(StringIO(fail[1]))
            elif kind == "array-nonconst-key":
                _, it, d, k, v = fail
                mgr.Array(pys.to_ptype(env, it), pys.build(env, d), {pys.build(env, k): pys.build(env, v)})
            elif kind == "custom-operator":
                _, svc, fbp = fail
                f = pys.build(env, fbp)
                q = mgr.Symbol("p0")
                u = mgr.create_node(node_type=MYOP, args=(mgr.Or(q, f),))
                g_ = mgr.And(mgr.Iff(f, q), mgr.Or(u, mgr.Not(f)))      # the operator sits below the root, after other work
                if svc == "simplify":
                    env.simplifier.simplify(g_)
                elif svc == "substitute":
                    env.substituter.substitute(g_, {q: mgr.Not(q)})
                elif svc == "nnf":
                    import pysmt.rewritings as rw
                    rw.nnf(g_, env)
                elif svc == "aig":
                    import pysmt.rewritings as rw
                    rw.aig(g_, env)
                elif svc == "serialize":
                    env.serializer.serialize(g_)
                elif svc == "to_smtlib":
                    from pysmt.smtlib.printers import to_smtlib
                    to_smtlib(g_)
                elif svc == "dag-printer":
                    world.dag_print(g_)
                elif svc == "size":
                    env.sizeo.get_size(g_)
                elif svc == "theory":
                    env.theoryo.get_theory(g_)
                else:
                    env.ao.get_atoms(g_)
            elif kind == "model-text":
                # the other two text entry points of the long-lived parser: get-model and get-value replies
                _, which, text = fail
                world.parser_was_reset()
                if which == "parse_model":
                    world.parser.parse_model(StringIO(text))
                else:
                    world.parser.get_assignment_list(StringIO(text))
            elif kind == "malformed-declaration":
                world.parser_was_reset()
                world.parser.get_script(StringIO(fail[1]))
            elif kind == "empty-preference-list":
                world.factory_used = True
                getattr(env.factory, fail[1])([])
            elif kind == "construct-equal-key":
                # a rejected construction whose (operator, arguments, parameters) compare EQUAL to those of a valid one
                # (8.0 == 8): the valid one must still be constructible afterwards
                mgr.BV(fail[1], float(fail[2]))
            elif kind == "command-generator":
                # the interactive interface: commands are read one by one, the parser keeps its state in between
                world.ensure_cg_declared()
                list(world.parser.get_command_generator(StringIO(fail[1])))
            elif kind == "generic-solver-redefinition":
                from pysmt.logics import QF_BV
                world.ensure_generic_solver()
                env.factory.add_generic_solver(GENERIC_NAME, ["/opt/second/solver", "--smt2"], [QF_BV])     # the name is taken
            elif kind == "with-block-raises":
                # the exception leaves a `with Environment():` block (the failing call is what the block does)
                inner = Environment()
                with inner:
                    inner.formula_manager.Plus(inner.formula_manager.TRUE(), inner.formula_manager.Int(1))
            elif kind == "fi-free-vars":
                from pysmt.substituter import FunctionInterpretation
                _, params, body = fail
                FunctionInterpretation([pys.build(env, p) for p in params], pys.build(env, body))
            else:
                return False
        except Exception as e:
            world.last_exc = type(e).__name__
            return True
    return False


def reftype_or_none(b):
    try:
        return reftype(b)
    except IllTyped:
        return None


def gen_fail(g, probe, rel):
    """An injected call designed to raise, overlapping the probe."""
    kind = g.choice(FAIL_KINDS[:-1])
    f = g.choice(rel)
    try:
        t = reftype(f)
    except IllTyped:
        t = None
    if kind == "construct":
        opts = [("Plus", (probe if t == BOOL else const(BOOL, True), const(INT, 1))),
                ("And", (f, const(INT, 0))) if t != INT else ("And", (const(BOOL, True), f)),
                ("Equals", (probe, probe)) if t == BOOL else ("Ite", (f, f, f)),
                ("BVAdd", (const(BV(2), 1), const(BV(4), 1))), ("Select", (f, f)), ("LE", (f, const(STRING, "a"))),
                # type checks that fail with something else than PysmtTypeError
                ("BVULT", (sym("i0", INT), sym("i1", INT))), ("BVSLE", (sym("i0", INT), const(BV(4), 1))),
                ("BVConcat", (sym("i0", INT), const(BV(4), 1))), ("BVULE", (f, f) if (t is None or not is_bv(t)) else (f, const(INT, 0))),
                ("Store", (f, f, f)), ("StrConcat", (const(INT, 1), const(INT, 2))), ("ToReal", (const(BOOL, True),)),
                ("BVSLT", (probe, probe) if reftype_or_none(probe) == BOOL else (const(REAL, 1), const(REAL, 2)))]
        c = g.choice(opts)
        return ("construct", c[0], tuple(c[1]))
    if kind == "substitute":
        # the offending key is any symbol of the formula: the rebuild fails at that position of the traversal
        big = g.choice([x for x in rel if B.size(x) >= 3] or rel)
        symsf = sorted((s for s in reffv(big) if not is_fun(s[1])), key=repr)
        if not symsf:
            return ("get-symbol", "no such symbol")
        s0 = g.choice(symsf)
        return ("substitute", big, sym(*s0), wrong_typed(s0[1]))
    if kind == "cnf-quantified":
        if t != BOOL:
            f = probe if reftype(probe) == BOOL else const(BOOL, True)
        q = ("FORALL", (("p0", BOOL),), (f,))
        depth = g.rnd.randint(0, 3)
        for _ in range(depth):
            q = g.choice([("AND", (), (g.term(BOOL, 1), q)), ("NOT", (), (q,)), ("OR", (), (q, g.term(BOOL, 1))),
                          ("ITE", (), (g.term(BOOL, 1), q, g.term(BOOL, 1)))])
        return ("cnf-quantified", q)
    if kind == "qelim-nonbool":
        if t != BOOL:
            f = const(BOOL, True)
        q = ("EXISTS", (("i0", INT),), (f,))
        if g.pct(50):
            q = ("AND", (), (g.term(BOOL, 1), ("NOT", (), (q,))))
        return ("qelim-nonbool", q)
    if kind == "size-measure":
        return ("size-measure", f)
    if kind == "get-symbol":
        return ("get-symbol", g.choice(["nope", "p0 ", "i9999", ""]))
    if kind == "hr-parse":
        return ("hr-parse", g.choice(["(undefined_sym & p0)", "(p0 &", "p0 & & p1", "forall x . ", "(i0 + ) < 3"]))
    if kind == "smtlib-parse":
        w = Writer(g.rnd, variation=False)
        bf = f if t == BOOL else const(BOOL, True)
        decl = "\n".join(declarations([bf], w))
        good = w.term(bf)
        bad = g.choice([
            "(assert (and %s |undeclared sym|))" % good,
            "(assert (let ((lv %s)) (and lv (+ lv 1))))" % good,
            "(assert (forall ((qv Int)) (and %s (bvadd qv qv))))" % good,
            "(define-fun df ((a Int)) Bool (and a %s))" % good,
            "(assert %s) (frobnicate)" % good,
            "(assert (and %s" % good,
            "(assert (=> %s))" % good,
            "(assert %s) (pop 3" % good,
            "(set-logic QF_LRA) (assert %s) (assert (< 1 true))" % good,
            # a script that sets a logic and defines a name before it fails: neither is there for the next script
            "(set-logic QF_LRA) (define-fun c15d () Real 5.0) (assert %s) (assert (frob c15d))" % good,
            "(set-logic QF_RDL) (declare-fun c15e () Real) (define-fun c15d () Real c15e) (assert (and %s" % good,
        ])
        return ("smtlib-parse", decl + "\n" + bad + "\n")
    if kind == "model-text":
        return g.choice([
            ("model-text", "parse_model", "((define-fun |pm a| () Int (let ((|zq!| 1)) (+ |zq!| true))))"),
            ("model-text", "parse_model", "((define-fun |pm f| ((|zq!| Int)) Int (+ |zq!| true)))"),
            ("model-text", "parse_model", "((define-fun |pm c| () Int 1) (define-fun |pm d| () Int (frob 1)))"),
            ("model-text", "answer", "(((let ((|zq!| 1)) (+ |zq!| true)) 1))"),
            ("model-text", "answer", "((i0 1) (i1"),
            ("model-text", "answer", "((|c15 env only| 3) p true)"),
            # rejected after the body has been read: the body mentions a symbol that is not a parameter
            ("model-text", "parse_model", "((define-fun |pm f| ((x Int)) Int (+ x (as |pm y| Int))))"),
            ("model-text", "parse_model", "((define-fun |pm c| () Int 1) (define-fun |pm f| ((x Int)) Int (+ x |c15 env only|)))"),
        ])
    if kind == "malformed-declaration":
        # the declaring command itself is malformed: the name it would have declared must stay undeclared
        return ("malformed-declaration", g.choice([
            "(declare-fun |%s| () Int Real)", "(declare-const |%s| Int Real)", "(declare-fun |%s| (Int) Bool Bool)",
            "(declare-fun |%s| () Int", "(declare-const |%s| Int (", "(declare-fun |%s| () (Array Int))",
            "(declare-fun |%s| (Int Undeclared) Int)", "(declare-const |%s| Int) (declare-const |%s| Real)"][:7]) % DECL_NAME)
    if kind == "with-block-raises":
        return ("with-block-raises",)
    if kind == "generic-solver-redefinition":
        return ("generic-solver-redefinition",)
    if kind == "construct-equal-key":
        return ("construct-equal-key", g.choice([0, 1, 5]), g.choice([3, 8]))
    if kind == "empty-preference-list":
        return ("empty-preference-list", g.choice(["set_solver_preference_list", "set_qelim_preference_list",
                                                   "set_interpolation_preference_list", "set_optimizer_preference_list"]))
    if kind == "command-generator":
        return ("command-generator", g.choice([
            "(assert (let ((cgx 5)) (frob cgx)))", "(assert (let ((cgy 1) (cgx 5) (cgz (frob 1))) (= cgx cgy)))",
            "(assert (forall ((cgx Bool)) (and cgx 1)))", "(define-fun cgf ((cgx Bool)) Bool (and cgx 1))",
            "(assert (exists ((cgx Real)) (let ((cgw cgx)) (< cgw true))))", "(assert (let ((cgx 7)) (= cgx 7)",
            # the let re-binds the declared cgx (bound only after all bindings are read) and fails at a later binding
            "(assert (let ((cgx 1) (cgq (+ true 1))) (> cgx cgq)))", "(assert (let ((cgq 2) (cgx 1) (cgr (frob))) (> cgx cgq)))",
            # definitions that are read to the end and rejected for the sort of their body
            "(define-fun cgf ((cgx Bool)) Int cgx)", "(define-fun cgf ((cgy Int) (cgx Int)) Bool (+ cgx cgy))",
            "(define-fun cgf ((cgx Real)) Int (+ cgx 1.5))",
            # rejected for what follows the logic name
            "(set-logic QF_LRA QF_LIA)", "(set-logic QF_LRA QF_LIA)", "(set-logic QF_RDL :status sat)"]) + "\n")
    if kind == "custom-operator":
        bf = f if t == BOOL else (probe if reftype_or_none(probe) == BOOL else const(BOOL, True))
        return ("custom-operator", g.choice(CUSTOM_SERVICES), bf)
    if kind == "array-nonconst-key":
        return ("array-nonconst-key", INT, const(INT, 0), sym("i0", INT), const(INT, 1))
    return ("fi-free-vars", (sym("i0", INT),), app("PLUS", sym("i0", INT), sym("i1", INT)))


def parse_probe(world, text):
    """Probe through the long-lived parser object."""
    with world.env:
        try:
            world.parser_was_reset()
            sc = world.parser.get_script(StringIO(text))
            return ("ok", sc.get_last_formula())
        except Exception as e:
            return ("raised", type(e).__name__)


def check_history(run, probe, history, probes, ptexts):
    import pysmt.environment as pe
    env0 = pe.get_env()
    try:
        _check_history(run, probe, history, probes, ptexts)
    finally:
        # the global environment stack is what it was (every `with` block of the history has been left)
        if pe.get_env() is not env0:
            run.fail({"subcheck": "trace:environment-stack"}, {"probe": probe, "history": history, "probes": [], "texts": []},
                     "after the history (failing calls: %s) get_env() is no longer the environment that was current before it" % (
                         [h[1][0] for h in history if h[0] == "fail"],))
            for _ in range(100):
                if pe.get_env() is env0 or len(pe.ENVIRONMENTS_STACK) <= 1:
                    break
                pe.pop_env()


def _check_history(run, probe, history, probes, ptexts):
    A, Bw = World(), World()
    nfail = 0
    kinds = []
    for item in history:
        if item[0] == "fail":
            raised = do_fail(A, item[1])
            if raised:
                nfail += 1
                kinds.append(item[1][0])
                run.cls("injected:" + item[1][0])
                # made again right away, the call fails again (had the first never been made, it would have failed)
                if item[1][0] not in ("with-block-raises",) and not do_fail(A, item[1]):
                    run.fail({"subcheck": "trace:repeat-differs", "kind": item[1][0], "when": "at-once"},
                             {"probe": probe, "history": history, "probes": [], "texts": [], "failing": item[1]},
                             "the call %s raised, and returned when it was made again at once" % (repr(item[1])[:300],))
            else:
                do_fail(Bw, item[1])       # it did not fail: an ordinary call, the twin runs it too
        else:
            a = run_call(A.env, item[1])
            if a[0] == "ok":
                run_call(Bw.env, item[1])
            else:
                nfail += 1                  # an ordinary call that raised is a failing call too
                kinds.append("service:" + item[1][0])
    case = {"probe": probe, "history": history, "probes": probes, "texts": ptexts}
    run.case(key=(probe, [(h[0], h[1][0]) for h in history]), nontrivial=nfail > 0,
             sample={"probe": show(probe, 100), "failing": kinds, "history": ["!" + h[1][0] if h[0] == "fail" else h[1][0] for h in history]}
             if nfail >= 2 else None)
    if nfail == 0:
        run.cls("no-failure-injected")
        return
    for call in probes:
        a = run_call(A.env, call)
        b = run_call(Bw.env, call)
        ka, kb = outcome_key(A.env, a, call), outcome_key(Bw.env, b, call)
        run.cls("probe:" + call[0])
        for k in set(kinds):
            run.nontrivial_cells = getattr(run, "nontrivial_cells", set())
            run.nontrivial_cells.add((k, call[0]))
        if ka != kb:
            run.fail({"subcheck": "trace:result-differs", "service": call[0], "after": sorted(set(kinds))[0]},
                     dict(case, failing=call),
                     "%s on %s gives %r after failing calls %s, %r on the twin that never saw them" % (
                         call[0], show(call[1], 200), _brief(A.env, a), sorted(set(kinds)), _brief(Bw.env, b)))
    # the command generator of the long-lived parser (no reset in between): a declared symbol still is that symbol
    if "command-generator" in kinds:
        outs = []
        for W in (A, Bw):
            with W.env:
                try:
                    W.ensure_cg_declared()
                    cmds = list(W.parser.get_command_generator(StringIO("(assert (> cgx (- cgx)))\n")))     # (no numerals: their sort follows a set-logic that an earlier script may have left)
                    outs.append("ok " + str(cmds[0].args[0]))
                except Exception as e:
                    outs.append("raised " + type(e).__name__)
        run.cls("probe:command-generator")
        if outs[0] != outs[1]:
            run.fail({"subcheck": "trace:result-differs", "service": "command-generator", "after": "command-generator"}, case,
                     "(assert (> cgx (- cgx))) read by the long-lived parser's command generator: %s after failing commands, %s on the twin" % (
                         outs[0], outs[1]))
    if "command-generator" in kinds and not ({"smtlib-parse", "model-text"} & set(kinds)):
        # a numeral: its sort follows the logic, which a rejected set-logic command must not have set
        outs = []
        for W in (A, Bw):
            with W.env:
                try:
                    W.ensure_cg_declared()
                    cmds = list(W.parser.get_command_generator(StringIO("(assert (> cgx 1))\n")))
                    outs.append("ok " + str(cmds[0].args[0]))
                except Exception as e:
                    outs.append("raised " + type(e).__name__)
        run.cls("probe:command-generator-numeral")
        if outs[0] != outs[1]:
            run.fail({"subcheck": "trace:result-differs", "service": "command-generator", "after": "command-generator", "probe": "numeral"}, case,
                     "(assert (> cgx 1)) read by the long-lived parser's command generator: %s after failing commands, %s on the twin" % (
                         outs[0], outs[1]))
    if "model-text" in kinds:
        # a symbol of the environment that was never declared to the parser is, for the parser, not a symbol
        outs = []
        for W in (A, Bw):
            with W.env:
                try:
                    cmds = list(W.parser.get_command_generator(StringIO("(assert (= |%s| |%s|))\n" % (ENV_ONLY, ENV_ONLY))))
                    outs.append("ok " + str(cmds[0].args[0]))
                except Exception as e:
                    outs.append("raised " + type(e).__name__)
        run.cls("probe:command-generator-environment-symbol")
        if outs[0] != outs[1]:
            run.fail({"subcheck": "trace:result-differs", "service": "command-generator", "after": "model-text", "probe": "environment-symbol"}, case,
                     "(assert (= |%s| |%s|)) read by the long-lived parser's command generator: %s after rejected replies, %s on the twin" % (
                         ENV_ONLY, ENV_ONLY, outs[0], outs[1]))
    # the preference lists of the factory
    if A.factory_used:
        if A.generic:
            Bw.ensure_generic_solver()      # (a registration that succeeded in the history is part of both worlds)
        outs = [repr(sorted((k, list(v)) for k, v in W.env.factory.preferences.items())) for W in (A, Bw)]
        run.cls("probe:factory-preferences")
        if outs[0] != outs[1]:
            run.fail({"subcheck": "trace:result-differs", "service": "factory-preferences", "after": "empty-preference-list"}, case,
                     "factory.preferences: %s after the rejected empty preference list, %s on the twin" % (outs[0][:300], outs[1][:300]))
    # constants whose key equals the key of a rejected construction
    if "construct-equal-key" in kinds:
        outs = []
        for W in (A, Bw):
            o = []
            for v_ in (0, 1, 5):
                for w_ in (3, 8):
                    try:
                        o.append(str(W.env.formula_manager.BV(v_, w_)))
                    except Exception as e:
                        o.append("raised " + type(e).__name__)
            outs.append(o)
        run.cls("probe:construct-equal-key")
        if outs[0] != outs[1]:
            run.fail({"subcheck": "trace:result-differs", "service": "constructor", "after": "construct-equal-key"}, case,
                     "BV(v, w) for v in 0,1,5 and w in 3,8: %s after the rejected BV(v, float(w)), %s on the twin" % (outs[0], outs[1]))
    # what the factory knows about its generic solver
    outs = []
    for W in ((A, Bw) if A.generic else ()):
        try:
            W.ensure_generic_solver()
            info = W.env.factory.get_generic_solver_info(GENERIC_NAME)
            outs.append(repr((list(info[0]), [str(l) for l in info[1]],
                              sorted(n for n in W.env.factory.all_solvers() if "c15" in n),
                              W.env.factory.preferences["Solver"].count(GENERIC_NAME) > 0)))
        except Exception as e:
            outs.append("raised " + type(e).__name__)
    if outs:
        run.cls("probe:factory-generic-solver")
    if outs and outs[0] != outs[1]:
        run.fail({"subcheck": "trace:result-differs", "service": "factory", "after": sorted(set(kinds))[0]}, case,
                 "generic solver info: %s after failing calls %s, %s on the twin" % (outs[0], sorted(set(kinds)), outs[1]))
    # a name that only malformed declarations mentioned is still undeclared
    outs = []
    for W in (A, Bw):
        o = []
        for fn in (lambda m: m.get_symbol(DECL_NAME), lambda m: m.Symbol(DECL_NAME, W.env.type_manager.BVType(3))):
            try:
                o.append("ok " + str(fn(W.env.formula_manager).symbol_type()))
            except Exception as e:
                o.append("raised " + type(e).__name__)
        outs.append(o)
    run.cls("probe:name-of-malformed-declaration")
    if outs[0] != outs[1]:
        run.fail({"subcheck": "trace:result-differs", "service": "get_symbol", "after": sorted(set(kinds))[0]}, case,
                 "get_symbol / Symbol(%r, BV3): %s after failing calls %s, %s on the twin" % (DECL_NAME, outs[0], sorted(set(kinds)), outs[1]))
    # The two kinds of probes through the long-lived parser each begin by resetting it, which wipes what the other kind is
    # looking for: their order alternates from case to case
    def probe_replies():
        # get-model / get-value replies read by the long-lived parser (before get_script, which resets the parser)
        for which, text in (("parse_model", "((define-fun |pm b| () Int |zq!|))"), ("parse_model", "((define-fun |pm c| () Int 7))"),
                            ("answer", "((|zq!| 1))"), ("parse_model", "((define-fun |pm g| ((a Int)) Int (+ a 1)))"),
                            ("parse_model", "((define-fun |pm f| () Bool true))")):
            outs = []
            for W in (A, Bw):
                with W.env:
                    try:
                        W.parser_was_reset()
                        r_ = W.parser.parse_model(StringIO(text)) if which == "parse_model" else W.parser.get_assignment_list(StringIO(text))
                        if which == "parse_model":
                            r_ = (sorted((str(k), str(v)) for k, v in r_[0].items()),
                                  sorted((str(k), [str(x) for x in fi.formal_params], str(fi.function_body)) for k, fi in r_[1].items()))
                        else:
                            r_ = [(str(a), str(b)) for (a, b) in r_]
                        import re as _re
                        outs.append("ok " + _re.sub(r"__(\w+?)\d+", r"__\1#", repr(r_))[:300])      # fresh formal names carry a counter
                    except Exception as e:
                        outs.append("raised " + type(e).__name__)
            run.cls("probe:long-lived-parser-replies")
            if outs[0] != outs[1]:
                run.fail({"subcheck": "trace:result-differs", "service": "long-lived-parser-replies", "after": sorted(set(kinds))[0]}, case,
                         "%s(%r) gives %s after failing calls %s, %s on the twin" % (which, text, outs[0], sorted(set(kinds)), outs[1]))

    def probe_scripts():
        for text in ptexts:
            a, b = parse_probe(A, text), parse_probe(Bw, text)
            ka = outcome_key(A.env, a)
            kb = outcome_key(Bw.env, b)
            run.cls("probe:long-lived-parser")
            if ka != kb:
                run.fail({"subcheck": "trace:result-differs", "service": "long-lived-parser", "after": sorted(set(kinds))[0]},
                         dict(case, failing_text=text),
                         "the re-used parser reads %r after failing calls %s, %r on the twin\n text=%s" % (
                             _brief(A.env, a), sorted(set(kinds)), _brief(Bw.env, b), text[:400]))

    for fn in ((probe_replies, probe_scripts) if len(history) % 2 else (probe_scripts, probe_replies)):
        fn()
    # the long-lived DAG printer object: what it prints must read back as the formula, on both sides alike
    try:
        if reftype(probe) == BOOL:
            outs = []
            for W in (A, Bw):
                with W.env:
                    try:
                        pf = pys.build(W.env, probe)
                        back = SmtLibParser(W.env).get_script(StringIO(
                            "\n".join(declarations([probe], Writer(__import__("random").Random(0), variation=False))) +
                            "\n(assert %s)\n" % W.dag_print(pf))).get_last_formula()
                        outs.append("same-object" if back is pf else "other-object")
                    except Exception as e:
                        outs.append("raised " + type(e).__name__)
            run.cls("probe:long-lived-dag-printer")
            if outs[0] != outs[1]:
                run.fail({"subcheck": "trace:result-differs", "service": "long-lived-dag-printer", "after": sorted(set(kinds))[0]}, case,
                         "text of the re-used SmtDagPrinter read back: %s after failing calls %s, %s on the twin" % (outs[0], sorted(set(kinds)), outs[1]))
    except IllTyped:
        pass
    # the failing calls themselves, made again: in the twin they are made for the first time, so that is what
    # they return "had the failing call never been made" (done last: it makes the twin see failures too)
    for item in history:
        if item[0] != "fail":
            continue
        A.last_exc = Bw.last_exc = None
        ra, rb = do_fail(A, item[1]), do_fail(Bw, item[1])
        run.cls("probe:repeat-failing-call")
        # text-based calls may legitimately fail differently (a failed script / construction leaves the symbols it
        # created, by design); for them only raised-vs-returned is compared
        same_symbols = item[1][0] in ("construct", "substitute", "size-measure", "array-nonconst-key", "fi-free-vars",
                                      "cnf-quantified", "qelim-nonbool")
        if ra != rb or (same_symbols and A.last_exc != Bw.last_exc):
            run.fail({"subcheck": "trace:repeat-differs", "kind": item[1][0]}, dict(case, failing=item[1]),
                     "the call %s made again after it failed: %s; made for the first time on the twin: %s" % (
                         show(item[1], 200) if False else repr(item[1])[:300],
                         "raised " + str(A.last_exc) if ra else "returned", "raised " + str(Bw.last_exc) if rb else "returned"))
    run.extra["matrix_cells"] = len(getattr(run, "nontrivial_cells", ()))


def _brief(env, out):
    if out[0] != "ok":
        return out
    r = out[1]
    try:
        from pysmt.fnode import FNode
        if isinstance(r, FNode):
            with env:
                return show(pys.decode(r), 160)
    except Exception:
        pass
    return str(r)[:160]


def check_solver_history(run, rnd):
    """Solver objects: a one-shot query or a solve() that fails with 'unknown' (the backend cannot decide the
    formula) must leave the assertion stack as a twin solver, which never made the call, has it."""
    from vf.brute import BruteSolver, BackendError
    g = G(cfg=Cfg(max_depth=2, theories={"bool", "bv"}, bv_widths=[1, 2], nsyms=2), rnd=rnd)
    env = Environment()
    with env:
        m = env.formula_manager
        wide = m.BVULT(m.Symbol("wide8", env.type_manager.BVType(8)), m.BV(3, 8))      # the backend gives up on it
        dies = m.Or(m.Symbol("the solver process dies"), m.Symbol("p0"))                  # solve() raises another error
        nonbool = m.Plus(m.Symbol("i0", env.type_manager.INT()), m.Int(1))                               # add_assertion rejects it
        A, Bs = BruteSolver(env), BruteSolver(env)
        depth = 0
        hist = []
        nfail = 0
        try:
            for _ in range(rnd.randint(3, 10)):
                k = rnd.randrange(9)
                if k <= 2:
                    f = pys.build(env, g.term(BOOL, 2))
                    A.add_assertion(f), Bs.add_assertion(f)
                    hist.append("add")
                elif k == 3:
                    A.push(), Bs.push()
                    depth += 1
                    hist.append("push")
                elif k == 4 and depth > 0:
                    A.pop(), Bs.pop()
                    depth -= 1
                    hist.append("pop")
                elif k == 5:
                    f = pys.build(env, g.term(BOOL, 2))
                    outs = []
                    for sv in (A, Bs):
                        try:
                            outs.append(sv.is_sat(f))
                        except BackendError:
                            raise
                        except Exception as e:
                            outs.append("raised " + type(e).__name__)
                    hist.append("is_sat")
                    if outs[0] != outs[1]:
                        run.case(key=("solver", tuple(hist)), nontrivial=True)
                        run.fail({"subcheck": "trace:solver-state-differs"}, {"history": hist},
                                 "after %s: is_sat gives %r, %r on the twin that never made the failing calls" % (hist, outs[0], outs[1]))
                        return
                else:
                    how = rnd.choice(["is_sat", "is_valid", "is_unsat", "solve-assumptions", "add_assertion"])
                    bad = rnd.choice([wide, dies, nonbool]) if how != "add_assertion" else nonbool
                    which = "unknown" if bad is wide else "other-error" if bad is dies else "rejected-assertion"

                    def call(sv):
                        if how == "solve-assumptions":
                            return sv.solve([bad, m.Or(bad, m.Symbol("p0"))] if bad is not nonbool else [wide])
                        return getattr(sv, how)(bad)
                    if how == "add_assertion":
                        A.assertions, Bs.assertions      # (the lazy pop of an earlier one-shot query happens now, on both)
                    before = (A.last_command, A.last_result)
                    try:
                        call(A)
                    except BackendError:
                        raise
                    except Exception:
                        nfail += 1
                        hist.append("!%s:%s" % (how, which))
                        run.cls("injected:solver-" + which)
                        # a rejected assertion is not a command the solver executed: its status is what it was
                        # (a solve that fails legitimately reports itself as the last command)
                        if how == "add_assertion" and (A.last_command, A.last_result) != before:
                            run.fail({"subcheck": "trace:solver-status-differs"}, {"history": list(hist)},
                                     "after %s: the rejected add_assertion changed last_command / last_result from %r to %r" % (
                                         hist, before, (A.last_command, A.last_result)))
                    else:
                        call(Bs)            # it did not fail: an ordinary call, the twin makes it too
                        hist.append(how + "(did not fail)")
            la, lb = list(A.assertions), list(Bs.assertions)
            da, db = len(A.backend), len(Bs.backend)
            ba, bb = A.backend_assertions(), Bs.backend_assertions()
            def verdict(sv):
                try:
                    return sv.solve()
                except BackendError:
                    raise
                except Exception as e:
                    return "raised " + type(e).__name__
            va, vb = verdict(A), verdict(Bs)
        except BackendError as e:
            run.fail({"subcheck": "trace:solver-illegal-pop"}, {"history": hist}, "illegal backend pop after %s: %s" % (hist, e))
            return
        run.case(key=("solver", tuple(hist)), nontrivial=nfail > 0)
        run.cls("solver-history")
        if (la, da, ba, va) != (lb, db, bb, vb):
            run.fail({"subcheck": "trace:solver-state-differs"}, {"history": hist},
                     "after %s: assertions %s (backend %s, depth %d, verdict %r); the twin that never made the failing calls "
                     "has %s (backend %s, depth %d, verdict %r)" % (hist, la, ba, da - 1, va, lb, bb, db - 1, vb))


def gen_case(rnd):
    g = G(cfg=CFG, rnd=rnd)
    probe = g.term(BOOL if g.pct(75) else g.choice([INT, REAL, BV(4)]))
    rel = related_formulas(g, probe) + [probe, probe]
    history = []
    for _ in range(g.rnd.randint(3, 12)):
        if g.pct(35):
            history.append(("fail", gen_fail(g, probe, rel)))
        else:
            history.append(("call", random_call(g, g.choice(rel))))
    if not any(h[0] == "fail" for h in history):
        history.insert(g.rnd.randrange(len(history) + 1), ("fail", gen_fail(g, probe, rel)))
    try:
        t = reftype(probe)
    except IllTyped:
        t = None
    names = [n for n in SERVICES if (t == BOOL or n not in BOOL_ONLY)]
    probes = [random_call(g, probe, forced=n) for n in names]
    subs = [s for s in subterms(probe) if s[2] and s is not probe]
    for s0 in subs[:2]:
        probes += [random_call(g, s0, forced=n) for n in ("simplify", "substitute", "size", "theory")]
    for r in rel[:3]:
        probes += [random_call(g, r, forced=n) for n in ("substitute", "simplify", "free_vars")]
    w = Writer(g.rnd, variation=False)
    pb = probe if t == BOOL else const(BOOL, True)
    ptexts = ["\n".join(declarations([pb], w) + ["(assert %s)" % w.term(pb), "(check-sat)"]) + "\n",
              "(declare-fun lv () Int)(declare-fun qv () Int)(declare-fun a () Real)(define-fun df ((a Int)) Bool (> a qv))"
              "(assert (and (df lv) (< (to_real lv) a)))\n",
              # numerals are typed by the logic of THIS script (none); names defined by an earlier script are unknown
              "(declare-fun c15n () Int)(assert (> c15n 1))\n",
              "(declare-fun c15n () Int)(assert (> c15n c15d))\n"]
    return probe, history, probes, ptexts


def shard(shard, seed, n):
    run = Run(PID)

    def body(rnd):
        if rnd.random() < 0.15:
            check_solver_history(run, rnd)
            return
        if rnd.random() < 0.04:
            # optimiser objects: optimisation calls that fail (unknown strategy, a goal the backend gives up on) are made
            # first; the generated optimisation case of C18 then runs on the same object and is judged as usual
            # (optimum, assertion stack and backend depth restored)
            from vf.checks import c18
            c18.random_case(run, rnd, failing_first=rnd.randrange(1, 16))
            run.cls("optimiser-history")
            return
        check_history(run, *gen_case(rnd))
    drive(body, st.randoms(use_true_random=True), n, derive_seed(seed, "c15", shard))
    return run


def main():
    chk = Check(PID, "fault_enumeration", RULE, assumptions=[
        "a call is a failing call iff it raises in the environment under test; the twin skips exactly those",
        "results are compared under the AC-canonical, fresh-name-agnostic key of vf/twin.py",
        "failure positions are enumerated through the choice of the offending symbol / nesting depth, not by "
        "instrumenting the walkers"])
    thorough = chk.tier == "thorough"
    jobs = [(shard, dict(shard=s, seed=chk.seed, n=8000 if thorough else 400)) for s in range(16)]
    chk.add(run_shards(jobs))
    for k in FAIL_KINDS[:-1]:
        chk.floor("injected:" + k, 80)
    for svc in ("simplify", "substitute", "size", "theory", "cnf", "parse_print", "long-lived-parser"):
        chk.floor("probe:" + svc, 500)
    chk.notes["fault_kinds"] = FAIL_KINDS[:-1]
    return chk.finish()


def replay(rec):
    run = Run(PID, known=[])
    c = rec["case"]
    if "system" in c:
        from vf.checks import c18
        c18.check_case(run, tuple(c["system"]), tuple(tuple(s_) for s_ in c["goals"]), c["routine"], c["strategy"], c["mixin"],
                       c["reverse"], c["user_levels"], reuse=c.get("reuse", False), failing_first=c.get("failing_first", 0), take=c.get("take"))
    elif "probe" not in c:
        print("replay: a solver history is re-generated from the seed, not replayed")
        return 0
    else:
        hist = [(h[0], tuple(h[1])) for h in c["history"]]
        check_history(run, c["probe"], hist, [tuple(x) for x in c["probes"]], c.get("texts", []))
    if run.violations:
        print("VIOLATION property=%s replay=(replayed)" % PID)
        print(run.violations[0]["detail"])
        return 1
    print("replay: no violation")
    return 0
