"""C01 - simplification preserves type and meaning, mentions no new symbol."""
import itertools
import warnings
from fractions import Fraction

warnings.filterwarnings("ignore", message=".*Division by 0.*")

from hypothesis import strategies as st

from vf import bp as B
from vf.bp import BOOL, INT, REAL, STRING, BV, app, const, sym, show, bphash
from vf.refsem import reftype, reffv, all_symbols, IllTyped, NoSemantics
from vf.gen import G, Cfg, needed_cards
from vf.harness import Run, Check, run_shards, drive, derive_seed
from vf.common import (fresh_build, Rejected, interps_for, compare_values, child_kinds, localise)
from vf import pys

PID = "C01"
RULE = ("typed blueprints (all sorts, sharing, finite-sort quantifiers, rule-trigger constants) built in a "
        "fresh Environment, simplified, decoded and compared with the reference evaluator on all (<=128) or "
        "8 sampled interpretations; plus every BV operator x constant operands at widths 1..W. "
        "non-trivial = the simplifier returned a different object or an operator has a constant operand; "
        "distinct by blueprint hash")


def simplify_outcome(bp, interps, cards):
    """-> None if fine, else (kind, detail).  Raises Rejected / NoSemantics upward."""
    env, f = fresh_build(bp)
    with env:
        b0 = pys.decode(f)
        try:
            s = env.simplifier.simplify(f)
        except RecursionError:
            raise
        except Exception as e:      # simplify() documents no rejection of well-typed formulas
            return ("raised", "%s: %s" % (type(e).__name__, str(e)[:200])), False, b0, b0
        b1 = pys.decode(s)
        changed = s is not f
        try:
            t0 = reftype(b0)
        except IllTyped as e:
            return ("skip-illtyped-original", str(e)), changed, b0, b1
        try:
            t1 = reftype(b1)
        except IllTyped as e:
            return ("illtyped-result", "%s" % e), changed, b0, b1
        if t0 != t1:
            return ("type", "%r -> %r" % (t0, t1)), changed, b0, b1
        if from_pt(s.get_type()) != t0:
            return ("reported-type", "get_type()=%r expected %r" % (s.get_type(), t0)), changed, b0, b1
        extra = reffv(b1) - reffv(b0)
        if extra:
            return ("new-free-symbol", repr(sorted(extra))), changed, b0, b1
        extra = all_symbols(b1) - all_symbols(b0)
        if extra:
            return ("new-symbol", repr(sorted(extra))), changed, b0, b1
    if interps is None:
        return None, changed, b0, b1
    ncmp, nunc, mm = compare_values(b0, b1, interps, cards)
    if mm is not None:
        if mm[0] == "value":
            return ("value", "interp=%r original=%r simplified=%r" % mm[1:]), changed, b0, b1
        return ("skip-" + mm[0], mm[1]), changed, b0, b1
    return None, changed, b0, b1


def from_pt(pt):
    return pys.from_ptype(pt)


def judge(run, bp, interps, cards, subcheck, nontrivial_hint=False):
    try:
        out, changed, b0, b1 = simplify_outcome(bp, interps, cards)
    except Rejected as e:
        run.discard("rejected-by-constructor")
        return
    except NoSemantics:
        run.discard("no-semantics")
        try:
            out, changed, b0, b1 = simplify_outcome(bp, None, cards)
        except Rejected:
            return
    hasconst = any(c[0] == "CONST" for s in B.subterms(b0) for c in s[2])
    run.case(key=b0, nontrivial=changed or hasconst,
             sample={"formula": show(b0, 200), "simplified": show(b1, 200)} if changed else None)
    if changed:
        run.cls("rewrite-fired")
    for o in B.ops_of(b0):
        run.cls("op:" + o)
    if out is None:
        return
    kind, detail = out
    if kind.startswith("skip-"):
        run.discard(kind[5:])
        return

    # localise: smallest sub-term with the same kind of failure
    def fails(sub):
        syms = reffv(sub)
        its = interps
        o2, _, _, _ = simplify_outcome(sub, its, cards)
        return o2 is not None and o2[0] == kind
    loc = localise(b0, fails)
    sig = {"subcheck": "simplify:" + kind, "op": loc[0], "class": child_kinds(loc)}
    run.fail(sig, {"bp": b0, "interps": interps, "cards": cards, "localised": loc},
             "%s: %s\n formula=%s\n simplified=%s\n minimal sub-term=%s" % (
                 kind, detail, show(b0), show(b1), show(loc)))


def case_strategy(cfg, family=None):
    @st.composite
    def s(draw):
        g = G(cfg=cfg, rnd=draw(st.randoms(use_true_random=True)))
        ty = g.ty()
        if family == "array-literals":
            # relations between array values (nested, with non-constant contents): the simplifier folds
            # equalities / selects / stores over "constant" arrays
            at = g.array_type()
            if g.pct(50):
                at = ("Array", g.index_type(), at) if g.pct(50) else ("Array", at[1], ("Array", g.index_type(), at[2]))
            a, b = g.array_literal(at, 2), g.array_literal(at, 2)
            k = g.rnd.randrange(4)
            if k == 0:
                t = app("EQUALS", a, b)
            elif k == 1:
                t = app("EQUALS", a, g.term(at, 2))
            elif k == 2 and at[2] != BOOL:
                i = g.term(at[1], 1)
                t = app("EQUALS", app("ARRAY_SELECT", a, i), app("ARRAY_SELECT", b, i))
            else:
                i, j = g.term(at[1], 1), g.term(at[1], 1)
                t = app("EQUALS", app("ARRAY_STORE", app("ARRAY_STORE", a, i, g.term(at[2], 1)), j, g.term(at[2], 1)), b)
            if g.pct(30):
                t = app("ITE", g.term(BOOL, 1), t, g.term(BOOL, 1))
        else:
            t = g.term(ty)
        cards = g.cards()
        syms = reffv(t)
        cards = {k: v for k, v in cards.items()}
        interps, ex = interps_for(g, syms, cards, n=8)
        return t, interps, cards
    return s()


CFGS = {
    "general": Cfg(pow=True),
    "shallow-const": Cfg(max_depth=2, share=35, same_child=25, pow=True),
    "unbounded-binders": Cfg(quant_unbounded=True, max_depth=4),
    "arith": Cfg(theories={"bool", "int", "real", "quant"}, max_depth=5, pow=True),
    "bv": Cfg(theories={"bool", "bv", "quant"}, bv_widths=[1, 2, 3, 4, 8], max_depth=5),
    "str": Cfg(theories={"bool", "int", "str"}, max_depth=3),
    "arr": Cfg(theories={"bool", "int", "bv", "arr", "uf"}, bv_widths=[1, 2, 4], max_depth=4),
    "array-literals": Cfg(theories={"bool", "int", "bv", "arr"}, bv_widths=[1, 2], max_depth=2, nsyms=2, small_ints=True),
}


def shard_random(shard, seed, n, cfgname):
    run = Run(PID)
    cfg = CFGS[cfgname]

    def body(case):
        t, interps, cards = case
        judge(run, t, interps, cards, "random/" + cfgname)
    drive(body, case_strategy(cfg, family=cfgname), n, derive_seed(seed, "c01", cfgname, shard))
    return run


BV_BIN = ["BV_AND", "BV_OR", "BV_XOR", "BV_ADD", "BV_SUB", "BV_MUL", "BV_UDIV", "BV_UREM", "BV_LSHL",
          "BV_LSHR", "BV_ASHR", "BV_SDIV", "BV_SREM", "BV_ULT", "BV_ULE", "BV_SLT", "BV_SLE",
          "BV_COMP", "EQUALS", "BV_CONCAT"]
BV_UN = ["BV_NOT", "BV_NEG", "BV_TONATURAL"]


def bv_points(wmax):
    """Every BV operator application over constants / one symbol, widths 1..wmax."""
    for w in range(1, wmax + 1):
        M = 1 << w
        x = sym("x", BV(w))
        for o in BV_UN:
            for u in range(M):
                yield app(o, const(BV(w), u))
        for k in range(0, w + 1):
            for o in ("BV_ROL", "BV_ROR"):
                for u in range(M):
                    yield app(o, const(BV(w), u), params=(k,))
        for k in range(0, 4):
            for o in ("BV_ZEXT", "BV_SEXT"):
                for u in range(M):
                    yield app(o, const(BV(w), u), params=(k,))
        for s in range(w):
            for e in range(s, w):
                for u in range(M):
                    yield app("BV_EXTRACT", const(BV(w), u), params=(s, e))
        for o in BV_BIN:
            for u in range(M):
                cu = const(BV(w), u)
                yield app(o, cu, x)
                yield app(o, x, cu)
                for v in range(M):
                    yield app(o, cu, const(BV(w), v))
            yield app(o, x, x)
        if w < wmax:
            # concat with a different width
            for u in range(M):
                for v in range(2):
                    yield app("BV_CONCAT", const(BV(w), u), const(BV(1), v))


def shard_bv(shard, nshards, wmax):
    run = Run(PID)
    for idx, t in enumerate(bv_points(wmax)):
        if idx % nshards != shard:
            continue
        syms = reffv(t)
        interps = [{"x": v} for v in range(1 << next(iter(syms))[1][1])] if syms else [{}]
        judge(run, t, interps, {}, "bv-exhaustive")
    return run


ENUM_DOM = {"Bool": [False, True], "Int": [-2, -1, 0, 1, 3], "Real": [Fraction(-1), Fraction(0), Fraction(1, 2), Fraction(2)]}


def enum_interps(t):
    """Every interpretation of the (few) free symbols of an enumerated term over small value sets."""
    import itertools
    syms = sorted(reffv(t), key=repr)
    doms = [ENUM_DOM[ty] if isinstance(ty, str) else list(range(1 << ty[1])) for (_, ty) in syms]
    out = [{n: v for (n, _), v in zip(syms, combo)} for combo in itertools.islice(itertools.product(*doms), 0, 400)]
    return out


def shard_enum(shard, nshards, stride, offset):
    """Bounded-exhaustive: every one-operator term and every two-operator combination (vf/enumterms.py)."""
    from vf import enumterms
    run = Run(PID)
    idx = 0
    for t in itertools.chain((x for v in enumterms.depth1().values() for x in v), enumterms.depth2()):
        idx += 1
        if idx % nshards != shard or (idx // nshards) % stride != offset % stride:
            continue
        judge(run, t, enum_interps(t), {}, "enumerated")
        run.cls("enumerated-two-operator-term")
    return run


STR_POOL = ["", "a", "b", "ab", "ba", "aba", "abab", "bab", "7", "07", "12", "-3", "a1"]
STR_INTS = [-1, 0, 1, 2, 3, 5, 12, -7]


def string_terms():
    """Every string operator applied to constants of a small pool, and to the pool plus one symbol."""
    from vf.bp import STRING, INT, sym, const, app
    S = [const(STRING, v) for v in STR_POOL]
    I = [const(INT, v) for v in STR_INTS]
    SX = S + [sym("u", STRING)]
    IX = I + [sym("i", INT)]
    sigs = [("STR_LENGTH", (SX,)), ("STR_TO_INT", (SX,)), ("INT_TO_STR", (IX,)),
            ("STR_CONCAT", (SX, SX)), ("STR_CONTAINS", (SX, SX)), ("STR_PREFIXOF", (SX, SX)), ("STR_SUFFIXOF", (SX, SX)),
            ("STR_CHARAT", (SX, IX)), ("STR_INDEXOF", (SX, S, IX)), ("STR_REPLACE", (SX, S, SX)),
            ("STR_SUBSTR", (SX, IX, IX))]
    for op, pools in sigs:
        for args in itertools.product(*pools):
            yield app(op, *args)


def shard_strings(shard, nshards):
    run = Run(PID)
    for idx, t in enumerate(string_terms()):
        if idx % nshards != shard:
            continue
        interps = [{"u": a, "i": b} for a in ("", "ab", "b7") for b in (0, 1, -1)] if reffv(t) else [{}]
        judge(run, t, interps, {}, "enumerated-strings")
        run.cls("enumerated-string-term")
    return run


def array_index_cases():
    """Constant arrays whose INDEXES are constant arrays over a finite sort.  Such an index value has several spellings
    (Array(Bool, 0){T:=1, F:=2} and Array(Bool, 1){F:=2} are the same function): a case is 'aliased' when it uses two
    different spellings of one value, 'distinct' otherwise.  -> (term, spellings used)"""
    from vf.bp import const, app
    T_, F_ = const(BOOL, True), const(BOOL, False)

    def lit(it, default, *pairs):
        ch = [default]
        for k, v in pairs:
            ch += [k, v]
        return ("ARRAY_VALUE", (it,), tuple(ch))
    I = lambda v: const(INT, v)
    spell = {}          # value (f(False), f(True)) -> spellings
    for a in (0, 1, 2):
        for b in (0, 1, 2):
            sp = [lit(BOOL, I(a), (T_, I(b))), lit(BOOL, I(b), (F_, I(a)))]
            if a != b:
                sp.append(lit(BOOL, I(5), (F_, I(a)), (T_, I(b))))
            spell[(a, b)] = sp
    IT = ("Array", BOOL, INT)
    vals = sorted(spell)
    for va in vals[:5]:
        for sa in spell[va]:
            outer = lit(IT, I(0), (sa, I(7)))
            for vq in vals[:5]:
                for sq in spell[vq]:
                    yield app("ARRAY_SELECT", outer, sq), (sa, sq)
                    yield app("EQUALS", app("ARRAY_SELECT", app("ARRAY_STORE", outer, sq, I(9)), sa), I(9)), (sa, sq)
            for vb in vals[2:6]:
                sb = spell[vb][-1]
                outer2 = lit(IT, I(0), (sa, I(7)), (sb, I(8)))
                for sq in spell[va] + spell[vb]:
                    yield app("ARRAY_SELECT", outer2, sq), (sa, sb, sq)
                yield app("EQUALS", outer2, lit(IT, I(0), (spell[vb][0], I(8)), (spell[va][0], I(7)))), (sa, sb, spell[vb][0], spell[va][0])


def shard_array_index(shard, nshards):
    from vf.refsem import Evaluator, canon
    run = Run(PID)
    for idx, (t, used) in enumerate(array_index_cases()):
        if idx % nshards != shard:
            continue
        env, _ = fresh_build(t)
        with env:
            nodes = [pys.build(env, u) for u in used]
        keys = [canon(Evaluator({}, {}).eval(u), reftype(u), {}) for u in used]
        aliased = any(keys[i] == keys[j] and nodes[i] is not nodes[j] for i in range(len(used)) for j in range(i))
        try:
            out, changed, b0, b1 = simplify_outcome(t, [{}], {})
        except (Rejected, NoSemantics):
            run.discard("array-valued-index:not-judged")
            continue
        run.case(key=t, nontrivial=True, sample={"formula": show(b0, 200), "simplified": show(b1, 100)} if idx % 97 == 0 else None)
        run.cls("array-valued-index:" + ("aliased" if aliased else "distinct"))
        if out is not None and not out[0].startswith("skip-"):
            run.fail({"subcheck": "simplify:" + out[0], "family": "array-valued-index", "aliased": aliased},
                     {"bp": t, "interps": [{}], "cards": {}},
                     "%s: %s\n formula=%s\n simplified=%s" % (out[0], out[1], show(b0), show(b1)))
    return run


def main():
    chk = Check(PID, "exploration", RULE, assumptions=[
        "reference evaluator vf/refsem.py transcribes SMT-LIB 2.6 theory semantics",
        "quantifiers evaluated only over finite sorts; Int/Real binders get type/free-symbol checks only",
        "interpretations evaluating an Int/Real division by zero are discarded (strict evaluation)"])
    thorough = chk.tier == "thorough"
    per = 40000 if thorough else 2500
    wmax = 6 if thorough else 4
    jobs = []
    weights = {"general": 5, "shallow-const": 4, "unbounded-binders": 1, "arith": 2, "bv": 2, "str": 2, "arr": 2,
               "array-literals": 2}
    for name, wgt in weights.items():
        for sh in range(wgt):
            jobs.append((shard_random, dict(shard=sh, seed=chk.seed, n=per, cfgname=name)))
    nb = 8
    for sh in range(nb):
        jobs.append((shard_bv, dict(shard=sh, nshards=nb, wmax=wmax)))
    stride = 1 if thorough else 6
    for sh in range(16):
        jobs.append((shard_enum, dict(shard=sh, nshards=16, stride=stride, offset=chk.seed)))
    for sh in range(4):
        jobs.append((shard_strings, dict(shard=sh, nshards=4)))
    for sh in range(2):
        jobs.append((shard_array_index, dict(shard=sh, nshards=2)))
    chk.add(run_shards(jobs))
    chk.exhaustive.append("every string operator over a pool of %d string and %d integer constants (plus one symbol per position)"
                          % (len(STR_POOL), len(STR_INTS)))
    chk.exhaustive.append("every BV operator x constant/symbol operands, widths 1..%d" % wmax)
    if stride == 1:
        chk.exhaustive.append("every term with one or two operators over Bool / Int / Real / BV1 / BV2 leaves (vf/enumterms.py), "
                              "every interpretation over small value sets")
    else:
        chk.notes["enumerated_terms"] = "1/%d of the two-operator terms (slice chosen by VERIF_SEED); the thorough tier takes all" % stride
    chk.floor("rewrite-fired", 500)
    chk.floor("enumerated-string-term", 2000)
    chk.floor("array-valued-index:distinct", 200)
    chk.floor("array-valued-index:aliased", 200)
    for o in ("FORALL", "ARRAY_STORE", "STR_SUBSTR", "DIV", "BV_SDIV", "FUNCTION", "ITE"):
        chk.floor("op:" + o, 20)
    return chk.finish()


def replay(rec):
    run = Run(PID, known=[])
    c = rec["case"]
    judge(run, c["bp"], c["interps"], c["cards"], "replay")
    if run.violations:
        print("VIOLATION property=%s replay=(replayed)" % PID)
        print(run.violations[0]["detail"])
        return 1
    print("replay: no violation")
    return 0
