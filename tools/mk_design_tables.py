#!/venv/bin/python
"""tools/mk_design_tables.py : rewrites the seeded-change table of DESIGN.md (between the SEEDED-TABLE markers)
from seeded/*/meta.json."""
import glob
import json
import os

ROOT = os.path.dirname(os.path.dirname(os.path.abspath(__file__)))
rows = []
for d in sorted(glob.glob(os.path.join(ROOT, "seeded", "*"))):
    m = json.load(open(os.path.join(d, "meta.json")))
    name = os.path.basename(d)
    needs = m["needs_to_manifest"]
    if len(needs) > 150:
        needs = needs[:147] + "..."
    own = m["breaks_property"] in m.get("caught_by", [])
    rows.append("| %s | %s | %s | %s |" % (name, needs.replace("|", "\\|"), ", ".join(m.get("caught_by", [])) or "-",
                                         "yes" if own else "no"))
table = ["| change | what it needs to manifest | caught by (quick tier) | by its own property's check |", "|---|---|---|---|"] + rows
p = os.path.join(ROOT, "DESIGN.md")
s = open(p).read()
a, b = "<!-- SEEDED-TABLE-BEGIN -->", "<!-- SEEDED-TABLE-END -->"
assert a in s and b in s
s = s[:s.index(a) + len(a)] + "\n" + "\n".join(table) + "\n" + s[s.index(b):]
open(p, "w").write(s)
print(len(rows), "rows")
