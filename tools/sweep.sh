#!/bin/bash
# tools/sweep.sh <tier> <seed>... : run every check at the given seeds on the unchanged tree; evidence and
# replays go to a scratch directory (committed evidence is untouched).  Prints one line per (check, seed).
tier=$1; shift
out=${SWEEP_OUT:-/tmp/sweep}
mkdir -p $out
for seed in "$@"; do
  for i in $(seq -w 1 20); do
    id=C$i
    s=$(date +%s)
    VERIF_SCRATCH=$out/$tier-$seed VERIF_SEED=$seed VERIF_TIER=$tier timeout ${SWEEP_TIMEOUT:-3600} ./check $id $tier > $out/$id-$tier-$seed.log 2>&1
    rc=$?
    e=$(date +%s)
    echo "$id tier=$tier seed=$seed rc=$rc secs=$((e-s)) $(grep -c '^VIOLATION' $out/$id-$tier-$seed.log) violations $(grep -c '^KNOWN-FINDING' $out/$id-$tier-$seed.log) known"
  done
done
