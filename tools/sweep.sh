#!/bin/bash
# tools/sweep.sh <tier> <seed>... : run every check (or those named in SWEEP_CHECKS) at the given seeds on the unchanged tree; evidence and
# replays go to a scratch directory (committed evidence is untouched).  Prints one line per (check, seed).
tier=$1; shift
out=${SWEEP_OUT:-/tmp/sweep}
mkdir -p $out
for seed in "$@"; do
  for id in ${SWEEP_CHECKS:-C01 C02 C03 C04 C05 C06 C07 C08 C09 C10 C11 C12 C13 C14 C15 C16 C17 C18 C19 C20}; do
    s=$(date +%s)
    VERIF_SCRATCH=$out/$tier-$seed VERIF_SEED=$seed VERIF_TIER=$tier timeout ${SWEEP_TIMEOUT:-3600} ./check $id $tier > $out/$id-$tier-$seed.log 2>&1
    rc=$?
    e=$(date +%s)
    echo "$id tier=$tier seed=$seed rc=$rc secs=$((e-s)) $(grep -c '^VIOLATION' $out/$id-$tier-$seed.log) violations $(grep -c '^KNOWN-FINDING' $out/$id-$tier-$seed.log) known"
  done
done
