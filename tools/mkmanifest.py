#!/venv/bin/python
"""Regenerate MANIFEST.json from the table below (only checks whose module exists are claimed)."""
import json, os
ROOT = os.path.dirname(os.path.dirname(os.path.abspath(__file__)))
props = [json.loads(l) for l in open(os.path.join(ROOT, "properties.jsonl"))]

T = {
 "C01": dict(level="exploration", design="4/C01",
    text="Generated well-typed formulas of every sort (sharing, finite-sort quantifiers, rule-trigger constants) are simplified in a fresh Environment; the decoded result must have the reference type, mention no new symbol and evaluate, under all (<=128) or 8 sampled interpretations, to the value the independent reference evaluator gives the original. Every BV operator over constant/symbol operands is enumerated exhaustively at widths 1..4 (1..6 thorough).",
    note="Trusted: vf/refsem.py (my transcription of the SMT-LIB 2.6 theories), vf/pys.py decode via public accessors. Quantifiers are evaluated only over finite sorts; strict evaluation discards interpretations that evaluate an Int/Real division by zero.",
    technique="property-based differential testing against a reference evaluator (Hypothesis-seeded generators) + exhaustive enumeration of the BV constant-folding space"),
}

checks, na = [], []
for p in props:
    pid = p["id"]
    if pid in T and os.path.exists(os.path.join(ROOT, "vf", "checks", pid.lower() + ".py")):
        t = T[pid]
        checks.append({
            "property_id": pid,
            "quick_cmd": "./check %s quick" % pid,
            "thorough_cmd": "./check %s thorough" % pid,
            "evidence_file": "evidence/%s.json" % pid,
            "replay_cmd_template": "./check %s --replay {path}" % pid,
            "engine": "vf",
            "level_claimed": {"category": t["level"], "text": t["text"], "design_ref": "DESIGN.md section " + t["design"]},
            "level_note": t["note"],
            "technique": t["technique"],
        })
    else:
        na.append({"property_id": pid, "reason": "check not built yet in this session (planned in DESIGN.md section 4; property-based testing applies)"})

m = {
 "version": 1,
 "setup_cmd": "./setup.sh",
 "hooks": {"guard": "PYSMT_VERIF", "enable": "none needed: checks import pysmt from /repo's working tree (editable install); instrumentation is applied from outside by monkey-patching", "baseline_off_cmd": "cd /repo && /venv/bin/python -m pytest -ra -q -p no:cacheprovider --timeout=900 --continue-on-collection-errors", "source_commits": [], "add_only": True},
 "engines": [{"name": "vf", "path": "vf/", "serves_properties": [c["property_id"] for c in checks], "kind_free_text": "Hypothesis-driven generators + reference semantics / reference models + exhaustive enumeration of finite sub-spaces; ./check <ID> [quick|thorough] [--replay path]"}],
 "checks": checks,
 "not_applicable": na,
 "notes": "Exit codes: 0 held, 1 VIOLATION, 2 harness error (never a violation). Known findings: known_findings.json (open entries print KNOWN-FINDING and are excluded by signature; fixed entries suppress nothing).",
}
json.dump(m, open(os.path.join(ROOT, "MANIFEST.json"), "w"), indent=1)
print("claimed:", [c["property_id"] for c in checks])
