#!/venv/bin/python
"""Regenerate MANIFEST.json from the table below (only checks whose module exists are claimed)."""
import json, os
ROOT = os.path.dirname(os.path.dirname(os.path.abspath(__file__)))
props = [json.loads(l) for l in open(os.path.join(ROOT, "properties.jsonl"))]

T = {
 "C01": dict(level="exploration", design="4/C01",
    text="Generated well-typed formulas of every sort (sharing, finite-sort quantifiers, rule-trigger constants) are simplified in a fresh Environment; the decoded result must have the reference type, mention no new symbol and evaluate, under all (<=128) or 8 sampled interpretations, to the value the independent reference evaluator gives the original. Every BV operator over constant/symbol operands is enumerated exhaustively at widths 1..4 (1..6 thorough).",
    note="Trusted: vf/refsem.py (my transcription of the SMT-LIB 2.6 theories), vf/pys.py decode via public accessors. Quantifiers are evaluated only over finite sorts; strict evaluation discards interpretations that evaluate an Int/Real division by zero.",
    technique="property-based differential testing against a reference evaluator (Hypothesis-seeded generators) + exhaustive enumeration of the BV constant-folding space"),
 "C02": dict(level="exploration", design="4/C02",
    text="Generated QF, UF-free formulas of every result sort are evaluated through EagerModel.get_value / get_py_value / [] / satisfies under total and partial assignments of constants (incl. nested array values) with and without completion, and compared with the reference evaluator; without completion the result must raise or hold for every completion. Every BV operator is evaluated at every operand value (operands as symbols) for widths 1..4 (1..5 thorough).",
    note="Trusted: vf/refsem.py. Completion of String/Array symbols is undocumented: an exception there is accepted. Division-by-zero assignments are discarded.",
    technique="property-based differential testing of model evaluation against a reference evaluator + exhaustive BV operand enumeration"),
 "C03": dict(level="exploration", design="4/C03",
    text="(a) All ~125k applications of every public FormulaManager constructor to every tuple of basis sorts (13 sorts incl. two function sorts) and parameter values are enumerated: a returned formula must be well-typed by the reference rules with the reference type, an ill-typed application must raise. (b) Every node of every formula returned by 15 transformations/parsers on generated inputs must be well-typed and type-preserving.",
    note="Trusted: reference typing rules (vf/refsem.py reftype + signature table in vf/checks/c03.py). Any exception is a rejection; over-rejection is not judged; function symbols as arguments and single-argument n-ary pass-through are counted as boundary classes, not violations.",
    technique="exhaustive enumeration of constructor x sort tuples against reference typing rules + property-based closure check of transformation outputs"),
 "C06": dict(level="exploration", design="4/C06",
    text="A table of ~3000 derived-constructor / infix / FNode-method forms (all arities, widths 1..4, Python literals on either side, repeated argument objects) is built over symbols; the decoded formula is evaluated by the reference evaluator at every argument tuple (Bool/BV exhaustively, Int/Real at drawn tuples incl. huge and rational values) and compared with a direct Python definition of the named function; out-of-range signed constants must raise.",
    note="Trusted: vf/refsem.py and the Python definitions in vf/checks/c06.py; x[i:j] is read as bits i..j inclusive (as FNode.__getitem__ documents by passing start/end).",
    technique="table-driven exhaustive / sampled evaluation of derived forms against direct Python definitions"),
 "C12": dict(level="exploration", design="4/C12",
    text="Generated formulas (binders shadowing free symbols, UF, Boolean terms below theory terms, shared sub-DAGs) are analysed by get_free_variables / get_atoms / is_qf / get_types / size (6 measures, in varying order); results must equal independent recursive definitions on the decoded structure (two-sided bounds for SYMBOLS and sorts), and two semantic tests are run with the reference evaluator: changing a symbol not reported free never changes the value; interpretations that agree on all reported atoms give a QF formula the same truth value.",
    note="Trusted: definitions in vf/checks/c12.py, vf/refsem.py; DAG counts rely on hash-consing (C04).",
    technique="property-based comparison with independent recursive definitions + semantic dependence (metamorphic) tests"),
 "C13": dict(level="exploration", design="4/C13",
    text="Detection: get_logic / get_theory / the script's set-logic must enable every feature an independent extraction finds in generated formulas. Order: reflexivity, antisymmetry, transitivity of <=, combine as upper bound over ALL pairs and (via bit-row inclusion) all triples of the 1728 well-formed theories and over all pairs/triples of the named logics; derived relations consistent. Selection: get_closer_logic / most_generic_logic judged against their specification for every named target x shipped lists and drawn subsets (incl. anonymous targets).",
    note="Trusted: feature extraction in vf/checks/c13.py (non-linear = product of >=2 symbol-mentioning factors, symbol-mentioning divisor, or pow); theories restricted to well-formed ones; difference logic not judged.",
    technique="exhaustive enumeration of the finite order/selection spaces + property-based differential feature extraction"),
 "C04": dict(level="exploration", design="4/C04",
    text="Hypothesis rule-based state machine over three environments: blueprints are built along generated routes (child order, constant spellings, list/varargs/generator, derived constructors), existing structures are rebuilt by other routes, and source formulas are normalized into a target environment. After every step the harness checks: same structural key <=> same object against every object created so far, all accessors / predicates / args identity / array_value_get agree with the blueprint, copies are structurally identical, hash-consed in the target, stable, and share no node with the source.",
    note="Trusted: the normal-form function norm() in vf/checks/c04.py (documented constructor normalisations) and reftype.",
    technique="stateful (model-based) property testing with Hypothesis RuleBasedStateMachine against a key->object reference model"),
 "C05": dict(level="exploration", design="4/C05",
    text="Generated formulas with nested/shadowing finite-sort binders and shared sub-DAGs x type-correct maps: symbol keys are judged by the substitution lemma with the reference evaluator (MGS and MSS); arbitrary sub-term keys (overlapping, nested, chained keys that only appear after an inner replacement, keys mentioning bound variables) are judged by object identity against an independent recursive definition of MGS / MSS with the documented binder rule; function interpretations must remove every application and agree in value.",
    note="Trusted: vf/refsem.py; recursive reference definitions in vf/checks/c05.py; the capture class that violates the property's proviso is executed but not judged; a constructor rejection below a matched key is an accepted rejection.",
    technique="property-based testing: metamorphic substitution lemma via reference evaluation + differential test against a recursive reference implementation"),
 "C10": dict(level="exploration", design="4/C10",
    text="Generated Boolean structure over theory atoms (incl. Boolean selects, UF) with nested/shadowing finite-sort quantifiers, arithmetic terms, and conjunctions with top-level equalities are passed to nnf, prenex_normal_form, aig, TimesDistributor, conjunctive/disjunctive partition, propagate_toplevel (both modes) and both Boolean QE procedures; each result must have the same value under all (<=128) or 12 sampled interpretations, introduce no free symbol, and satisfy the advertised shape predicate.",
    note="Trusted: vf/refsem.py and the shape predicates in vf/checks/c10.py. Quantifiers evaluated over finite sorts only; calls exceeding 5 s or evaluations exceeding the step budget are inconclusive (counted), never violations.",
    technique="property-based equivalence testing by exhaustive/sampled reference evaluation + shape predicates"),
 "C11": dict(level="exploration", design="4/C11",
    text="CNF: for cnf / cnf_as_set / PolarityCNFizer on generated QF formulas (constants, ITE, IFF, shared sub-formulas, real theory atoms) the result must be a conjunction of clauses of literals and, for every explored interpretation of the input's symbols, the clause set restricted by that interpretation must be satisfiable over the fresh symbols iff the interpretation satisfies the input (exact DPLL = all values of the introduced symbols). Ackermann: no application may remain; models of the input extended by ack := value of the application must satisfy the output; every satisfying assignment of the output must yield (tables read off the constants, or any table among all) functions under which the input holds.",
    note="Trusted: vf/refsem.py, the DPLL in vf/checks/c11.py; Ackermann inputs restricted to function symbols over carriers of size <= 4 so all tables can be enumerated.",
    technique="property-based model-by-model checking with exhaustive enumeration of the auxiliary symbols / function tables"),
 "C07": dict(level="exploration", design="4/C07",
    text="Generated formulas of every theory with hostile symbol names, extreme constants, nested array values, finite and Int/Real binders, UF, plain and parametric uninterpreted sorts are printed by to_smtlib / SmtPrinter / SmtDagPrinter / smtlibscript_from_formula().serialize and by multi-assert SmtLibScripts (one printer instance for several formulas), in tree and let-DAG form. An independent strict SMT-LIB 2.6 reader (no pysmt import) must accept the text (lexicon, syntax, declared-before-use and once, sorts) and its elaboration must have the reference value of the original formula under all (<=64) or 8 sampled interpretations.",
    note="Trusted: vf/smtref.py (independent reader) and vf/refsem.py. Int/Real binders are compared under a finite binder window on both sides (sound for two renderings of one formula). Names containing | or backslash are outside the domain.",
    technique="differential property-based testing of the printers against an independent SMT-LIB reader + reference evaluator"),
 "C08": dict(level="exploration", design="4/C08",
    text="SMT-LIB scripts written by my own writer from generated blueprints with syntactic variation (literal notations, quoted symbols, nested/parallel/swap lets, binders and define-fun parameters shadowing globals, definitions and lets applied under binders of the same name, declare-const, chainable / n-ary / distinct / xor forms, numerals typed by the logic, comments) are read by pySMT (fresh parser, and one parser object re-used over several scripts) and by an independent strict reader: every assert, define-fun body, get-value term and declaration pySMT returns must have the standard meaning under the reference evaluator, or pySMT must raise; malformed variants of classes with an unambiguous expectation must be rejected; a committed corpus of 106 construct snippets must stay accepted with the standard meaning.",
    note="Trusted: vf/smtref.py as the standard reading, vf/refsem.py. Any parser exception is a rejection. Int/Real binders are compared under a finite binder window on both readings. Three open findings (capture by binders x2, undeclared symbol read as String) are excluded by their construct tag.",
    technique="differential property-based testing of the parser against an independent SMT-LIB elaborator; grammar-based generation with construct tags; regression corpus"),
 "C09": dict(level="exploration", design="4/C09",
    text="(a) Generated formulas with hostile names (incl. | and backslash, consecutive let-like names) are printed by both SMT-LIB printers through smtlibscript_from_formula and parsed back in the same environment: the result must be the very same object (array values: equal after collapsing store chains). (b) Generated scripts over the serialisable commands with names / ids needing quoting are parsed, re-serialised (both printers) and re-parsed: the command lists must be equal (formulas by identity, numeric option values by value, definitions up to parameter renaming). (c) Formulas of the human-readable fragment: HRParser.parse(f.serialize()) must parse, have the same type, reference value and the same structure up to n-ary grouping.",
    note="Trusted: hash-consing (C04) for identity; vf/refsem.py for (c). Symbols named like a delimiter ('(' , ')' , leading double quote) are an open finding (tokenizer) and excluded by class; String-sorted array-value texts are outside the HR fragment.",
    technique="round-trip property testing (print-parse identity, parse-serialize-parse equality, HR round trip with reference evaluation)"),
 "C14": dict(level="exploration", design="4/C14",
    text="A generated history of 5-25 calls of 21 services over formulas that share sub-DAGs with a probe formula is followed by probe calls of every service on the probe and on its sub-terms; a twin fresh environment runs only the probes. Results must be equal under an AC-canonical, fresh-name-agnostic key (SMT-LIB text by what it denotes); repeated calls of services creating no fresh symbol must return the same object; constructor calls with out-of-domain Python values and re-declarations with equal sorts from another type manager must have a history-independent outcome.",
    note="Trusted: the canonical key of vf/twin.py (all fresh-looking names are one placeholder: sound, weaker than a bijection); vf/smtref.py for the meaning of printed text.",
    technique="metamorphic / twin-environment property testing over generated call histories"),
 "C15": dict(level="fault_enumeration", design="4/C15",
    text="Failing calls of 10 kinds are injected into generated call histories (ill-typed construction; ill-typed substitution with the offending key ranging over all symbols of the traversed formula; unsupported operator reached at every nesting depth inside cnf / Shannon QE; unknown size measure; undefined symbol; malformed or ill-typed SMT-LIB given to a long-lived parser inside let / quantifier / define-fun / mid-script; non-constant array index; function interpretation with free variables). A twin environment runs the history without the calls that raised; then the complete list of 21 probe services (+ the long-lived parser) runs on both and every outcome must be equal.",
    note="A call is a failing call iff it raises in the environment under test; failure positions are enumerated through the choice of the offending symbol / depth, not by instrumenting walkers. Symbols that a failed script legitimately created in the environment are not reused by the probes with another sort.",
    technique="fault injection into generated histories with a twin environment as oracle"),
 "C20": dict(level="exploration", design="4/C20",
    text="23 formula families (every nestable operator family; full sharing with tree size 2^n, Fibonacci sharing, chains) x 17 operations (construction with type checking, simplify, substitute, analyses, logic detection, size, nnf, prenex, aig, DAG print, print-parse). Work is the number of Python function calls counted from outside with sys.setprofile: an abort budget of 6000 x distinct nodes stops exponential traversals, a doubling test (work(2n) <= 2.6 work(n)) detects super-linear growth, and every operation must succeed on depth-20000 chains under the default recursion limit.",
    note="Work measure = Python-level calls (not wall time). Families avoid the documented flattening of nested Plus/Times/And/Or whose *result* is legitimately quadratic; only the TREE/LEAVES/DEPTH size measures are measured; finitely many sizes.",
    technique="parametrised family generation with externally counted work (sys.setprofile), abort budgets and doubling tests"),
 "C16": dict(level="exploration", design="4/C16",
    text="Script side: all legal command sequences up to length 4 (5 thorough) over an 18-letter alphabet (assert, assert-soft with ids and weights, push/pop 0..2, reset-assertions, check-sat, minimize/maximize, minmax) plus sampled sequences up to length 40 are given to SmtLibScript; get_last_formula(return_optimizations=True) must equal the live assertions (identity) and goals of an executable reference model of the SMT-LIB assertion stack, get_strict_formula must raise on push/pop. Solver side: all legal sequences up to length 4 (5) over a 17-letter alphabet (add_assertion, named assertion, push/pop 0..2, reset, solve with none/literal/non-literal assumptions, is_sat/is_valid/is_unsat, observe) plus sampled long ones run on a concrete IncrementalTrackingSolver whose backend rejects illegal pops: assertions, backend frames and every verdict must equal the reference.",
    note="Trusted: the reference stack model in vf/checks/c16.py and the brute-force solver vf/brute.py (decorated like the native solvers). Only SMT-LIB-legal sequences are run.",
    technique="model-based testing: exhaustive enumeration of short command sequences + generated long sequences against a reference model"),
 "C18": dict(level="exploration", design="4/C18",
    text="Generated finite-domain systems (Bool, BV3, range-bounded Int; some unsatisfiable) x goals (linear Int terms with guarded ITE, signed/unsigned BV terms, MaxSMT with integer - linear search also rational - weights over arbitrary soft clauses, MinMax/MaxMin over 2-3 terms) x optimize / boxed / lexicographic / pareto x linear|binary x SUA|incremental mixin over a brute-force solver in both enumeration orders, at level 0 and inside user push levels. Every model of the system is enumerated: the returned model must satisfy the assertions, the cost must be the optimum (lexicographic optimum; exactly the Pareto front, no duplicates), None exactly for unsatisfiable systems, and assertions / backend depth must be restored (a following user pop removes the user's level only).",
    note="Trusted: vf/brute.py as satisfiability oracle (exhaustive), vf/refsem.py for objective values. Bisection over rational weights is not generated (documented as possibly non-terminating). A routine exceeding 20 s is inconclusive.",
    technique="property-based testing against an exhaustive-enumeration optimum oracle"),
 "C17": dict(level="exploration", design="4/C17",
    text="Generated histories of solver-API calls (add_assertion with symbols first used at different levels, push(n), legal pop(n), solve, get_value, get_model, reset_assertions, is_sat/is_valid/is_unsat, factory shortcuts) drive SmtLibSolver attached to a strict reference SMT-LIB solver process that rejects illegal command streams and logs every command, reply and model. The process must never answer (error ...); every verdict must equal the brute-force truth of the harness' own model of the live assertions; after sat, get_model must contain every symbol of the live assertions with the logged value and satisfy them, get_value must return the logged value; no legal call may raise or block.",
    note="Trusted: vf/refsolver.py + vf/smtref.py (strict reading of the stream, cvc5-style value syntax, reset-assertions removes declarations), vf/refsem.py. One reference process per history; a call exceeding its budget is reported as blocked (reply stream out of sync).",
    technique="stateful property testing against a strict reference solver process (protocol conformance + differential verdicts/models)"),
 "C19": dict(level="exploration", design="4/C19",
    text="Portfolios of 2-4 members, each a reference solver process with a harness-chosen delay (equal delays give near-ties) and failure mode (ok, unknown, crash, exit, garbage reply, fail-on-assert, die-at-start), run the cycle solve / get_model / get_value / push-assert-solve / pop-solve on generated finite-domain formulas (incl. scenarios where all members tie and the verdict flips at the second query), with exit_on_exception on and off. If a member answers, every verdict must be the brute-force truth and the model / value must satisfy the assertion; if every member fails the call must raise. Blocking forever is decided by a deadlock predicate (no member process alive and the call not returned after a grace period), never by a timeout.",
    note="The harness owns delays and failure modes, not the OS scheduler: completion orders and near-ties are sampled and reported in the evidence (finish-order / near-tie classes); microsecond races are not enumerated. Budget overruns with live members are inconclusive.",
    technique="schedule-perturbed property testing with fault-injected member processes and a deadlock predicate"),
}

checks, na = [], []
for p in props:
    pid = p["id"]
    if pid in T and os.path.exists(os.path.join(ROOT, "vf", "checks", pid.lower() + ".py")):
        t = T[pid]
        checks.append({
            "property_id": pid,
            "quick_cmd": "./check %s quick" % pid,
            "thorough_cmd": "./check %s thorough" % pid,
            "evidence_file": "evidence/%s.json" % pid,
            "replay_cmd_template": "./check %s --replay {path}" % pid,
            "engine": "vf",
            "level_claimed": {"category": t["level"], "text": t["text"], "design_ref": "DESIGN.md section " + t["design"]},
            "level_note": t["note"],
            "technique": t["technique"],
        })
    else:
        na.append({"property_id": pid, "reason": "check not built yet in this session (planned in DESIGN.md section 4; property-based testing applies)"})

m = {
 "version": 1,
 "setup_cmd": "./setup.sh",
 "hooks": {"guard": "PYSMT_VERIF", "enable": "none needed: checks import pysmt from /repo's working tree (editable install); instrumentation is applied from outside by monkey-patching", "baseline_off_cmd": "cd /repo && /venv/bin/python -m pytest -ra -q -p no:cacheprovider --timeout=900 --continue-on-collection-errors", "source_commits": [], "add_only": True},
 "engines": [{"name": "vf", "path": "vf/", "serves_properties": [c["property_id"] for c in checks], "kind_free_text": "Hypothesis-driven generators + reference semantics / reference models + exhaustive enumeration of finite sub-spaces; ./check <ID> [quick|thorough] [--replay path]"}],
 "checks": checks,
 "not_applicable": na,
 "notes": "Exit codes: 0 held, 1 VIOLATION, 2 harness error (never a violation). Known findings: known_findings.json (open entries print KNOWN-FINDING and are excluded by signature; fixed entries suppress nothing).",
}
json.dump(m, open(os.path.join(ROOT, "MANIFEST.json"), "w"), indent=1)
print("claimed:", [c["property_id"] for c in checks])
