#!/bin/sh
# tools/verify_mutant.sh <name> <patch.diff> <demo.py>
# In a scratch worktree of /repo HEAD: demo passes without the patch, fails with it, and the
# repository's test suite still passes with it.  Worktree removed afterwards.
N="$1"; P="$2"; D="$3"
W=/tmp/vm_$N
git -C /repo worktree add -q --detach $W HEAD || exit 2
trap 'git -C /repo worktree remove --force $W' EXIT
cd $W
cp "$D" $W/demo_x.py
/venv/bin/python demo_x.py >/dev/null 2>&1; a=$?
git apply "$P" || { echo "$N: PATCH DOES NOT APPLY"; exit 3; }
/venv/bin/python demo_x.py >/dev/null 2>&1; b=$?
t=$(/venv/bin/python -m pytest -q -p no:cacheprovider pysmt/test 2>&1 | tail -1)
echo "$N: demo_without=$a demo_with=$b tests: $t"
