#!/bin/sh
# tools/mut.sh <patch.diff> <ID> [<ID> ...]   apply a seeded change to /repo, run the quick checks, undo it.
# Evidence and replays of these runs go to a scratch dir, not to /verif/evidence.
P="$1"; shift
cd /verif || exit 2
if ! git -C /repo diff --quiet; then echo "repo dirty, refusing"; exit 2; fi
git -C /repo apply "$P" || { echo "PATCH DOES NOT APPLY: $P"; exit 3; }
trap 'git -C /repo checkout -- . ' EXIT INT TERM
export VERIF_SCRATCH=/tmp/verif_scratch
for id in "$@"; do
  ./check "$id" ${VERIF_TIER:-quick} > /tmp/verif_scratch_$id.log 2>&1
  rc=$?
  echo "== $(basename $(dirname $P))/$(basename $P) $id exit=$rc  $(grep -c '^VIOLATION' /tmp/verif_scratch_$id.log) violation lines"
  grep -A1 '^VIOLATION' /tmp/verif_scratch_$id.log | grep signature | sort | uniq -c | head -5
  [ $rc -ge 2 ] && tail -5 /tmp/verif_scratch_$id.log
done
exit 0
