#!/venv/bin/python
"""tools/keep_mutant.py <name> <property> <patch> <demo> <needs> <ran> <caught_by>  -> seeded/<name>/"""
import json, os, shutil, sys
name, pid, patch, demo, needs, ran, caught = sys.argv[1:8]
d = os.path.join(os.path.dirname(os.path.dirname(os.path.abspath(__file__))), "seeded", name)
os.makedirs(d, exist_ok=True)
shutil.copy(patch, os.path.join(d, "patch.diff"))
shutil.copy(demo, os.path.join(d, "demo.py"))
json.dump({"breaks_property": pid, "needs_to_manifest": needs, "what_i_ran": ran,
           "caught_by": [c for c in caught.split(",") if c], "origin": "independent sub-agent given only the property text"},
          open(os.path.join(d, "meta.json"), "w"), indent=1)
print("kept", d)
