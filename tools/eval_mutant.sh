#!/bin/sh
# tools/eval_mutant.sh <name> <patch.diff> <demo.py> <check ids...>
# Evaluates a seeded change WITHOUT touching /repo: scratch worktree of /repo HEAD, patch applied there,
# demo run without / with the patch, repository test suite with the patch, then the given checks with
# pysmt imported from the worktree (PYTHONPATH).  Prints one summary line; removes the worktree.
N="$1"; P="$2"; D="$3"; shift 3
W=/tmp/em_$N
O=/tmp/em_${N}_out
rm -rf "$O"; mkdir -p "$O"
git -C /repo worktree add -q --detach "$W" HEAD 2>/dev/null || { echo "$N: cannot create worktree"; exit 2; }
trap 'git -C /repo worktree remove --force "$W" 2>/dev/null; rm -rf "$O"' EXIT
cd "$W" || exit 2
cp "$D" "$W/demo_x.py"
/venv/bin/python demo_x.py >/dev/null 2>&1; a=$?
if ! git apply "$P" 2>/dev/null; then echo "$N: PATCH-DOES-NOT-APPLY"; exit 3; fi
/venv/bin/python demo_x.py >/dev/null 2>&1; b=$?
t=$(/venv/bin/python -m pytest -q -p no:cacheprovider pysmt/test 2>&1 | tail -1 | sed 's/ in .*//')
res=""
for id in "$@"; do
  (cd /verif && PYTHONPATH="$W" VERIF_SCRATCH="$O" ./check "$id" quick >"$O/$id.log" 2>&1); rc=$?
  nv=$(grep -c '^VIOLATION' "$O/$id.log")
  res="$res $id:exit=$rc,viol=$nv"
done
mkdir -p /tmp/em_logs; for f in "$O"/*.log; do cp "$f" /tmp/em_logs/$N-$(basename $f); done
echo "$N: demo_without=$a demo_with=$b tests=[$t] checks:$res"
