#!/venv/bin/python
"""Generate vf/accepted_constructs.json: construct snippets that the pinned tree accepts AND reads with the
standard meaning.  Run once (PYTHONPATH=/verif); the file is committed and checked by C08 / C09."""
import json, os, sys, random
sys.path.insert(0, os.path.dirname(os.path.dirname(os.path.abspath(__file__))))
from vf.checks.c08 import pysmt_read, compare_scripts, CORPUS
from vf import smtref
from vf.harness import Run
from vf.gen import G, Cfg

D = """(declare-fun p () Bool)(declare-fun q () Bool)(declare-fun x () Int)(declare-fun y () Int)
(declare-fun r () Real)(declare-fun s () Real)(declare-fun a () (_ BitVec 4))(declare-fun b () (_ BitVec 4))
(declare-fun c () (_ BitVec 8))(declare-fun st () String)(declare-fun tt () String)
(declare-fun ar () (Array Int Int))(declare-fun f (Int Bool) Int)(declare-sort S 0)(declare-fun e () S)
(declare-fun h (S) S)
"""
T = {  # name -> term (Bool unless wrapped)
 "and-nary": "(and p q p)", "or-nary": "(or p q p)", "not": "(not p)", "implies": "(=> p q)", "xor": "(xor p q)",
 "iff-as-eq": "(= p q)", "ite-bool": "(ite p q p)", "ite-int": "(= (ite p x y) 0)", "distinct-2": "(distinct x y)",
 "distinct-3": "(distinct x y 3)", "plus-nary": "(= (+ x y 1) 0)", "minus-binary": "(= (- x y) 0)",
 "unary-minus-const": "(= x (- 3))", "unary-minus-term": "(= x (- y))", "times": "(= (* 2 x) y)",
 "int-div": "(= (div x 2) y)", "real-div-const": "(= r (/ 1.0 3.0))", "real-div": "(= r (/ s 2.0))",
 "le": "(<= x y)", "lt": "(< x y)", "ge": "(>= x y)", "gt": "(> x y)", "to_real": "(= r (to_real x))",
 "decimal": "(= r 1.50)", "let-simple": "(let ((z (+ x 1))) (> z y))", "let-nested": "(let ((z (+ x 1))) (let ((w (+ z 1))) (> w z)))",
 "let-parallel": "(let ((z x) (w y)) (> z w))", "let-swap": "(let ((x y) (y x)) (> x y))",
 "forall-int": "(forall ((k Int)) (> (+ k x) k))", "exists-two": "(exists ((k Int) (l Real)) (> (to_real k) l))",
 "forall-shadows-global": "(and (> x 0) (forall ((x Int)) (>= (* x x) 0)))",
 "bv-bin": "(= a #b0101)", "bv-hex": "(= c #xA5)", "bv-indexed-const": "(= a (_ bv5 4))", "bvadd": "(= (bvadd a b) a)",
 "bvadd-nary": "(= (bvadd a b a) a)", "bvand-nary": "(= (bvand a b a) a)", "bvsub": "(= (bvsub a b) a)",
 "bvmul": "(= (bvmul a b) a)", "bvudiv": "(= (bvudiv a b) a)", "bvurem": "(= (bvurem a b) a)", "bvsdiv": "(= (bvsdiv a b) a)",
 "bvsrem": "(= (bvsrem a b) a)", "bvsmod": "(= (bvsmod a b) a)", "bvshl": "(= (bvshl a b) a)", "bvlshr": "(= (bvlshr a b) a)",
 "bvashr": "(= (bvashr a b) a)", "bvnot": "(= (bvnot a) b)", "bvneg": "(= (bvneg a) b)", "bvor": "(= (bvor a b) a)",
 "bvxor": "(= (bvxor a b) a)", "bvnand": "(= (bvnand a b) a)", "bvnor": "(= (bvnor a b) a)", "bvxnor": "(= (bvxnor a b) a)",
 "bvcomp": "(= (bvcomp a b) #b1)", "bvult": "(bvult a b)", "bvule": "(bvule a b)", "bvugt": "(bvugt a b)", "bvuge": "(bvuge a b)",
 "bvslt": "(bvslt a b)", "bvsle": "(bvsle a b)", "bvsgt": "(bvsgt a b)", "bvsge": "(bvsge a b)",
 "concat": "(= (concat a b) c)", "concat-nary": "(= (concat a #b01 #b10) c)", "extract": "(= ((_ extract 2 1) a) #b01)",
 "zero_extend": "(= ((_ zero_extend 4) a) c)", "sign_extend": "(= ((_ sign_extend 4) a) c)",
 "rotate_left": "(= ((_ rotate_left 1) a) b)", "rotate_right": "(= ((_ rotate_right 3) a) b)", "repeat": "(= ((_ repeat 2) a) c)",
 "bv2nat": "(= (bv2nat a) x)", "select": "(= (select ar x) y)", "store": "(= (store ar x y) ar)",
 "as-const": "(= ar ((as const (Array Int Int)) 0))", "uf-app": "(= (f x p) y)", "uf-sort": "(= (h e) e)",
 "str.len": "(= (str.len st) x)", "str.++": "(= (str.++ st tt) st)", "str.at": "(= (str.at st x) tt)",
 "str.substr": "(= (str.substr st x y) tt)", "str.contains": "(str.contains st tt)", "str.prefixof": "(str.prefixof st tt)",
 "str.suffixof": "(str.suffixof st tt)", "str.indexof": "(= (str.indexof st tt x) y)", "str.replace": "(= (str.replace st tt st) tt)",
 "str.to_int": "(= (str.to_int st) x)", "str.from_int": "(= (str.from_int x) st)", "string-literal-quote": "(= st \"a\"\"b\")",
 "annotation-named": "(! (> x y) :named n1)", "quoted-symbol": "(= |x| y)", "true-false": "(or true false)",
}
SCRIPTS = {
 "declare-const": "(declare-const k Int)(assert (> k 0))",
 "define-fun-params": D + "(define-fun g ((u Int) (v Int)) Bool (> u v))(assert (g x y))",
 "define-fun-0ary": D + "(define-fun k0 () Int (+ x 1))(assert (> k0 y))",
 "define-fun-shadows-global": D + "(define-fun g2 ((x Int)) Bool (> x y))(assert (g2 3))",
 "define-fun-shadowed-by-binder": D + "(define-fun dd () Int y)(assert (exists ((dd Int)) (> dd x)))",
 "define-sort": "(define-sort MyInt () Int)(declare-fun k () MyInt)(assert (> k 0))",
 "define-sort-param": "(define-sort Arr (X) (Array Int X))(declare-fun k () (Arr Bool))(assert (select k 0))",
 "declare-sort-arity1": "(declare-sort E 0)(declare-sort L 1)(declare-fun k () (L E))(declare-fun m () (L E))(assert (= k m))",
 "numeral-real-in-QF_LRA": "(set-logic QF_LRA)(declare-fun k () Real)(assert (< k 1))",
 "numeral-int-in-QF_LIA": "(set-logic QF_LIA)(declare-fun k () Int)(assert (< k 1))",
 "rational-of-numerals-in-QF_LRA": "(set-logic QF_LRA)(declare-fun k () Real)(assert (< k (/ 1 3)))",
 "push-pop": D + "(assert p)(push 1)(assert q)(pop 1)(assert (> x y))(check-sat)",
 "get-value": D + "(assert p)(check-sat)(get-value (x (+ y 1) p))",
 "comment-and-whitespace": "; hello ( | \n(declare-fun   k\t()\n Int) ; again\n(assert (>  k\n 0))",
 "set-option-info": "(set-option :produce-models true)(set-info :status sat)(declare-fun k () Bool)(assert k)(check-sat)(exit)",
}
for n, t in T.items():
    SCRIPTS[n] = D + "(assert %s)" % t

out = []
g = G(cfg=Cfg(), rnd=random.Random(0))
for name in sorted(SCRIPTS):
    text = SCRIPTS[name]
    try:
        ref = smtref.read_script(text, strict=True)
    except smtref.IllFormed as e:
        print("NOT STANDARD", name, e); continue
    st_, a, psc = pysmt_read(text)
    if st_ != "ok":
        print("rejected today:", name, type(a).__name__, str(a)[:80]); continue
    run = Run("C08", known=[])
    compare_scripts(run, text, ref, a, psc, g, {}, {"text": text}, {"corpus"})
    if run.violations:
        print("MISREAD today:", name, run.violations[0]["detail"][:200]); continue
    out.append({"name": name, "script": text})
json.dump(out, open(CORPUS, "w"), indent=1)
print(len(out), "constructs accepted with the standard meaning")
