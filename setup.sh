#!/bin/sh
# Offline setup: make sure hypothesis is importable by /venv/bin/python (installing it beside the
# repository's packages from the offline wheelhouse into /verif/.deps if it is not).
cd "$(dirname "$0")" || exit 2
export PYTHONPATH="$PWD:$PWD/.deps"
if ! /venv/bin/python -c "import hypothesis" 2>/dev/null; then
  /venv/bin/pip install --no-index --find-links /opt/veriftools/wheels --target "$PWD/.deps" hypothesis || exit 1
fi
/venv/bin/python -c "import hypothesis, pysmt, vf.refsem; print('setup ok: hypothesis', hypothesis.__version__, 'pysmt from', pysmt.__file__)"
