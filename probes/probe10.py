import warnings, sys; warnings.simplefilter("ignore")
import pysmt.walkers.generic as G
COUNT = [0]
orig_init = G.Walker.__init__
def patched(self, env=None):
    orig_init(self, env)
    for k, f in list(self.functions.items()):
        def mk(f):
            def w(*a, **kw):
                COUNT[0] += 1
                return f(*a, **kw)
            return w
        self.functions[k] = mk(f)
G.Walker.__init__ = patched
from pysmt.environment import Environment
import pysmt.smtlib.printers
from pysmt.typing import INT, BVType, BOOL
from pysmt.rewritings import nnf, aig, prenex_normal_form
from pysmt.oracles import get_logic
from pysmt.smtlib.parser import SmtLibParser
from io import StringIO
def fam(m, kind, n):
    if kind == "and":
        t = m.Symbol("p"); q = m.Symbol("q")
        for i in range(n): t = m.And(m.Or(t, q), m.Not(t))
    elif kind == "plus":
        t = m.Symbol("x", INT)
        p = m.Symbol("p")
        for i in range(n): t = m.Ite(p, m.Plus(t, m.Int(1)), m.Minus(t, m.Int(2)))
    elif kind == "bv":
        t = m.Symbol("b", BVType(8))
        for i in range(n): t = m.BVXor(m.BVAdd(t, t), t)
    elif kind == "iff":
        t = m.Symbol("p"); q = m.Symbol("q")
        for i in range(n): t = m.Iff(t, m.Implies(t, q))
    return t
for kind in ("and", "plus", "bv", "iff"):
    for n in (30, 60):
        with Environment() as env:
            m = env.formula_manager
            COUNT[0] = 0
            f = fam(m, kind, n)
            if kind in ("plus",): f = m.Equals(f, m.Int(0))
            if kind == "bv": f = m.Equals(f, m.BV(0,8))
            c_build = COUNT[0]
            dag = f.size(1)
            res = {}
            for name, op in [("simplify", lambda: f.simplify()), ("subst", lambda: f.substitute({m.Symbol("q"): m.Symbol("r")})),
                             ("fv", lambda: f.get_free_variables()), ("atoms", lambda: f.get_atoms()), ("logic", lambda: get_logic(f)),
                             ("nnf", lambda: nnf(f)), ("aig", lambda: aig(f)), ("prenex", lambda: prenex_normal_form(f)),
                             ("dagprint", lambda: f.to_smtlib(True))]:
                COUNT[0] = 0
                try:
                    r = op()
                except Exception as e:
                    r = None; res[name] = type(e).__name__; continue
                res[name] = COUNT[0]
            txt = "(declare-fun p () Bool)(declare-fun q () Bool)(declare-fun x () Int)(declare-fun b () (_ BitVec 8))(assert %s)" % f.to_smtlib(True)
            COUNT[0] = 0
            g = SmtLibParser().get_script(StringIO(txt)).get_last_formula()
            res["parse"] = (COUNT[0], g is f)
            print(kind, n, "dag", dag, "build", c_build, res)
