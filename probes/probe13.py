import warnings, itertools; warnings.simplefilter("ignore")
from pysmt.shortcuts import *
from pysmt.typing import *
from pysmt.smtlib.script import SmtLibScript, SmtLibCommand
import pysmt.smtlib.commands as C
a,b,c = [Symbol(n) for n in "abc"]; x = Symbol("x", INT)
ops = [("assert", a), ("assert", b), ("soft", a, "g", 1), ("soft", b, "g", 2), ("soft", c, "h", 1), ("push", 1), ("push", 2), ("pop", 1), ("pop", 2), ("reset",), ("min", x), ("check",)]
def ref(seq):
    frames = [[]]  # events: ("a", f) | ("soft", f, id, w, t) | ("goal", kind, term, t)
    t = 0
    for op in seq:
        t += 1
        if op[0] == "assert": frames[-1].append(("a", op[1]))
        elif op[0] == "soft": frames[-1].append(("soft", op[1], op[2], op[3], t))
        elif op[0] == "min": frames[-1].append(("goal", "min", op[1], t))
        elif op[0] == "push": frames.extend([] for _ in range(op[1]))
        elif op[0] == "pop":
            if op[1] > len(frames)-1: return None
            for _ in range(op[1]): frames.pop()
        elif op[0] == "reset": frames = [[]]
    ev = [e for fr in frames for e in fr]
    asserts = [e[1] for e in ev if e[0] == "a"]
    goals = []; seen = {}
    for e in ev:
        if e[0] == "goal": goals.append(("min", e[2]))
        elif e[0] == "soft":
            if e[2] not in seen:
                seen[e[2]] = len(goals); goals.append(("maxsmt", []))
            goals[seen[e[2]]][1].append((e[1], e[3]))
    return asserts, goals
def impl(seq):
    s = SmtLibScript()
    for op in seq:
        if op[0] == "assert": s.add(C.ASSERT, [op[1]])
        elif op[0] == "soft": s.add(C.ASSERT_SOFT, [op[1], [(":weight", Int(op[3])), (":id", op[2])]])
        elif op[0] == "min": s.add(C.MINIMIZE, [op[1], [(":signed", False)]])
        elif op[0] == "push": s.add(C.PUSH, [op[1]])
        elif op[0] == "pop": s.add(C.POP, [op[1]])
        elif op[0] == "reset": s.add(C.RESET_ASSERTIONS, [])
        elif op[0] == "check": s.add(C.CHECK_SAT, [])
    f, goals = s.get_last_formula(return_optimizations=True)
    gl = []
    for g in goals:
        if g.is_maxsmt_goal(): gl.append(("maxsmt", [(cl, int(w.constant_value())) for cl, w in g.soft]))
        else: gl.append(("min", g.term()))
    return f, gl
n = bad = 0
for L in range(1, 6):
    for seq in itertools.product(ops, repeat=L):
        r = ref(seq)
        if r is None: continue
        n += 1
        try:
            f, gl = impl(seq)
        except Exception as e:
            bad += 1
            if False: print("EXC", seq, repr(e)[:100])
            continue
        if f is not And(r[0]) or gl != r[1]:
            bad += 1
            if bad <= 8: print("MISMATCH", seq, "\n   got", f, gl, "\n   exp", And(r[0]), r[1])
print("total", n, "bad", bad)
