import itertools
from pysmt.logics import *
L = sorted(LOGICS, key=lambda l: l.name)
print(len(L), len(PYSMT_LOGICS), len(SMTLIB2_LOGICS))
# duplicates by name
import collections
c = collections.Counter(l.name for l in L); print([n for n,k in c.items() if k>1])
refl = [l for l in L if not (l <= l)]
print("non-reflexive", refl)
anti = [(a,b) for a in L for b in L if a is not b and a<=b and b<=a and a != b]
print("antisym violations", anti[:10], len(anti))
same = [(a.name,b.name) for a in L for b in L if a.name < b.name and a.theory == b.theory and a.quantifier_free == b.quantifier_free]
print("same theory diff name", same)
tr = [(a,b,c) for a in L for b in L if a<=b for c in L if b<=c and not a<=c]
print("trans violations", tr[:5], len(tr))
# theory partial order over valid theories
def theories():
    for arrays, ac in ((0,0),(1,0),(1,1)):
      for bv, fp, uf, ct, st in itertools.product((0,1), repeat=5):
        for ia, idf in ((0,0),(1,0),(1,1)):
          for ra, rd in ((0,0),(1,0),(1,1)):
            for lin in (0,1):
                yield Theory(arrays=bool(arrays), arrays_const=bool(ac), bit_vectors=bool(bv), floating_point=bool(fp),
                    integer_arithmetic=bool(ia), real_arithmetic=bool(ra), integer_difference=bool(idf), real_difference=bool(rd),
                    linear=bool(lin), uninterpreted=bool(uf), custom_type=bool(ct), strings=bool(st))
T = list(theories()); print(len(T))
import random
random.seed(1)
bad=0
for a in T:
    if not a<=a: bad+=1
print("refl bad", bad)
S = random.sample(T, 300)
ub=0; anti=0
for a in S:
    for b in S:
        c = a.combine(b)
        if not (a<=c and b<=c): 
            ub+=1
            if ub<3: print("UB", a, "|", b, "|", c)
        if a<=b and b<=a and a!=b: anti+=1
print("ub bad", ub, "anti", anti)
trb=0
S2 = random.sample(T, 120)
for a in S2:
    for b in S2:
        if a<=b:
            for c in S2:
                if b<=c and not a<=c: trb+=1
print("trans bad", trb)
# closer logic
for tgt in L:
    try:
        r = get_closer_logic(PYSMT_LOGICS, tgt)
    except NoLogicAvailableError:
        continue
    assert r in PYSMT_LOGICS and tgt <= r
    between = [k for k in PYSMT_LOGICS if tgt <= k and k <= r and k != r]
    if between: print("not minimal", tgt, r, between)
print("done")
