import warnings; warnings.simplefilter("ignore")
from pysmt.shortcuts import *
from pysmt.typing import *
from pysmt.logics import QF_UFLIRA, QF_LIA, QF_BV
def t(name, f):
    try:
        print(name, "=>", f())
    except Exception as e:
        print(name, "RAISED", type(e).__name__, str(e)[:200])
env = get_env()
env.factory.add_generic_solver("cvc5bin", ["cvc5", "--lang=smt2", "--incremental", "--produce-models"], [QF_UFLIRA])
env.factory.add_generic_solver("z3bin", ["z3", "-in", "-smt2"], [QF_UFLIRA])
x, y = Symbol("x", INT), Symbol("y", INT)
for name in ("z3bin", "cvc5bin"):
    print("=====", name)
    def sc1():
        with Solver(name=name, logic=QF_UFLIRA) as s:
            s.add_assertion(GT(x, Int(3)))
            s.push()
            s.add_assertion(GT(y, x))
            r = s.solve()
            m = s.get_model()
            return r, dict(m), m.satisfies(GT(x, Int(3)))
    t("get_model after push", sc1)
    def sc2():
        with Solver(name=name, logic=QF_UFLIRA) as s:
            s.add_assertion(GT(x, Int(3)))
            s.push(2)
            s.add_assertion(GT(y, x))
            s.pop(1)
            s.pop(1)
            s.add_assertion(GT(y, Int(0)))
            return s.solve(), len(s.declared_vars)
    t("push2 pop1 pop1", sc2)
    def sc3():
        with Solver(name=name, logic=QF_UFLIRA) as s:
            s.add_assertion(GT(x, Int(3)))
            s.reset_assertions()
            s.add_assertion(LT(x, Int(0)))
            return s.solve()
    t("reset then reuse", sc3)
    def sc4():
        with Solver(name=name, logic=QF_UFLIRA) as s:
            s.add_assertion(GT(x, Int(3)))
            r = s.solve()
            return r, s.get_value(y)
    t("get_value undeclared", sc4)
    def sc5():
        with Solver(name=name, logic=QF_UFLIRA) as s:
            s.add_assertion(GT(x, Int(3)))
            a = s.is_sat(LT(x, Int(0)))
            b = s.is_sat(GT(x, Int(5)))
            c = s.solve()
            return a, b, c, s.get_value(x)
    t("is_sat twice", sc5)
