import warnings; warnings.simplefilter("ignore")
from pysmt.shortcuts import *
from pysmt.smtlib.parser import SmtLibParser
from io import StringIO
def rt(txt):
    try:
        s1 = SmtLibParser().get_script(StringIO(txt))
    except Exception as e:
        return "PARSE1 " + type(e).__name__ + ": " + str(e)[:100]
    try:
        b = StringIO(); s1.serialize(b, daggify=False); t2 = b.getvalue()
    except Exception as e:
        return "SER " + type(e).__name__ + ": " + str(e)[:100]
    try:
        s2 = SmtLibParser().get_script(StringIO(t2))
    except Exception as e:
        return "PARSE2 " + type(e).__name__ + ": " + str(e)[:100] + " || " + t2.replace("\n", " ")
    same = [(a.name == b.name) and (a.args == b.args) for a, b in zip(s1.commands, s2.commands)]
    return (all(same) and len(s1.commands)==len(s2.commands), t2.replace("\n"," ")[:300])
tests = {
 "declare-const": "(declare-const x Int)(assert (> x 0))",
 "define-fun": "(define-fun f ((a Int) (b Int)) Int (+ a b))(declare-fun y () Int)(assert (= (f y 1) 2))",
 "define-fun quoted": "(define-fun |f 1| ((a Int)) Int a)(assert (= (|f 1| 1) 2))",
 "define-fun quoted param": "(define-fun f ((|a b| Int)) Int |a b|)(assert (= (f 1) 2))",
 "declare-sort": "(declare-sort S 0)(declare-fun c () S)(assert (= c c))",
 "define-sort": "(define-sort MyInt () Int)(declare-fun c () MyInt)(assert (= c 1))",
 "soft": "(declare-fun a () Bool)(assert-soft a :weight 3 :id goal)(assert-soft (not a) :id goal)(check-sat)(get-objectives)",
 "opt": "(declare-fun x () Int)(minimize x :id g1)(maximize (+ x 1))(check-sat)",
 "optbv": "(declare-fun x () (_ BitVec 4))(minimize x :signed)(check-sat)",
 "minmax": "(declare-fun x () Int)(declare-fun y () Int)(minmax x y)(maxmin x y :id k)(check-sat)",
 "get-value": "(declare-fun x () Int)(assert (> x 1))(check-sat)(get-value (x (+ x 1)))",
 "set-info": '(set-info :status sat)(set-info :source |a b c|)(set-option :produce-models true)(set-logic QF_LIA)',
 "push-pop": "(declare-fun x () Int)(push 2)(assert (> x 1))(pop 1)(push)(pop)(reset-assertions)(exit)",
 "check-allsat": "(declare-fun a () Bool)(declare-fun b () Bool)(assert (or a b))(check-allsat (a b))",
 "echo": '(echo "hello")',
 "check-sat-assuming": "(declare-fun a () Bool)(check-sat-assuming (a))",
 "get-info": "(get-info :name)",
 "load-obj": "(load-objective-model 1)",
 "get-model": "(get-model)(get-unsat-core)(get-assignment)",
 "annot": "(declare-fun a () Bool)(assert (! a :named n1))",
}
for k, v in tests.items():
    print(k, "=>", rt(v))
