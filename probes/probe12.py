import warnings, time, threading, multiprocessing; warnings.simplefilter("ignore")
from pysmt.shortcuts import *
from pysmt.typing import *
from pysmt.logics import QF_UFLIRA
env = get_env()
cv = ["cvc5", "--lang=smt2", "--incremental", "--produce-models"]
env.factory.add_generic_solver("m1", cv, [QF_UFLIRA])
env.factory.add_generic_solver("m2", cv, [QF_UFLIRA])
env.factory.add_generic_solver("bad1", ["sh", "-c", "sleep 0.05; exit 3"], [QF_UFLIRA])
env.factory.add_generic_solver("bad2", ["sh", "-c", "cat > /dev/null"], [QF_UFLIRA])
x = Symbol("x", INT)
def run(members, f, label):
    res = {}
    def body():
        try:
            with Portfolio(members, logic=QF_UFLIRA, incremental=False, generate_models=True) as p:
                p.add_assertion(f)
                r = p.solve()
                res["r"] = r
                if r:
                    res["m"] = dict(p.get_model()); res["v"] = p.get_value(x)
        except Exception as e:
            res["exc"] = repr(e)[:120]
    t = threading.Thread(target=body, daemon=True); t0 = time.time(); t.start(); t.join(8)
    print(label, "alive" if t.is_alive() else "done", round(time.time()-t0,2), res, "children", [(c.name, c.is_alive()) for c in multiprocessing.active_children()])
from pysmt.shortcuts import Portfolio
run(["m1", "m2"], GT(x, Int(3)), "two ok")
run(["m1", "bad1"], GT(x, Int(3)), "one bad")
run(["bad1"], GT(x, Int(3)), "all bad (exit)")
