import sys, atheris
with atheris.instrument_imports(include=["pysmt.smtlib.parser.parser"]):
    import pysmt.smtlib.parser.parser as P
from pysmt.environment import reset_env
from io import StringIO
N=[0]
def one(data):
    N[0]+=1
    try:
        txt = data.decode("utf-8")
    except UnicodeDecodeError:
        return
    reset_env()
    try:
        P.SmtLibParser().get_script(StringIO(txt))
    except Exception:
        pass
atheris.Setup(sys.argv, one)
atheris.Fuzz()
