import warnings; warnings.simplefilter("ignore")
from pysmt.shortcuts import *
from pysmt.typing import *
from pysmt.smtlib.parser import SmtLibParser
from io import StringIO
def t(name, f):
    try:
        print(name, "=>", f())
    except Exception as e:
        print(name, "RAISED", type(e).__name__, str(e)[:150])
def parse(s):
    return SmtLibParser().get_script(StringIO(s))
t("parallel let", lambda: parse("(declare-fun x () Int)(declare-fun y () Int)(assert (let ((x y) (y x)) (< x y)))").get_last_formula())
t("capture", lambda: parse("(declare-fun x () Int)(define-fun g ((a Int)) Bool (> a x))(assert (forall ((x Int)) (g x)))").get_last_formula())
t("let capture", lambda: parse("(declare-fun x () Int)(assert (let ((y x)) (forall ((x Int)) (= y x))))").get_last_formula())
t("unicode esc", lambda: parse('(declare-fun s () String)(assert (= s "\\u{61}"))').get_last_formula())
t("chain eq", lambda: parse("(declare-fun x () Int)(declare-fun y () Int)(assert (= x y 3))").get_last_formula())
t("nary minus", lambda: parse("(declare-fun x () Int)(declare-fun y () Int)(assert (= 0 (- x y 3)))").get_last_formula())
t("lt chain", lambda: parse("(declare-fun x () Int)(declare-fun y () Int)(assert (< x y 3))").get_last_formula())
t("div", lambda: parse("(declare-fun x () Int)(assert (= 0 (div x 3)))").get_last_formula())
t("mod", lambda: parse("(declare-fun x () Int)(assert (= 0 (mod x 3)))").get_last_formula())
t("implies 3", lambda: parse("(declare-fun a () Bool)(declare-fun b () Bool)(assert (=> a b a))").get_last_formula())
t("1/2 token", lambda: parse("(declare-fun x () Real)(assert (= x 1/2))").get_last_formula())
t("hex", lambda: parse("(declare-fun x () (_ BitVec 8))(assert (= x #xaB))").get_last_formula())
t("named", lambda: parse("(declare-fun a () Bool)(assert (! a :named n1))(assert n1)").get_last_formula())
t("push pop decl", lambda: parse("(push 1)(declare-fun a () Bool)(pop 1)(declare-fun a () Int)(assert (> a 0))").get_last_formula())
# C15 substituter stale
x, y = Symbol("sx", INT), Symbol("sy", INT); b = Symbol("sb")
f = Plus(x, Int(1))
t("bad subst", lambda: f.substitute({x: b}))
t("after bad subst", lambda: Plus(x, Int(2)).substitute({x: y}))
t("after bad subst2", lambda: LT(x, Int(2)).substitute({y: x}))
# C20 bv_width recursion on ITE
import sys
bv = Symbol("bv0", BVType(4)); c = Symbol("cc")
def deep():
    g = bv
    for i in range(20000):
        g = Ite(c, g, bv) if i % 2 else Ite(c, BVAdd(g, bv), bv)
    return g.bv_width()
t("deep ite bvadd", deep)
def deep2():
    g = bv
    for i in range(20000):
        g = Ite(c, g, bv)
    # hash-consing: Ite(c, bv, bv) ... each distinct
    return BVNot(g).bv_width()
t("deep ite", deep2)
