import warnings; warnings.simplefilter("ignore")
from pysmt.shortcuts import *
from pysmt.typing import *
from pysmt.environment import Environment
from fractions import Fraction
def t(name, f):
    try:
        print(name, "=>", f())
    except Exception as e:
        print(name, "RAISED", type(e).__name__, str(e)[:150])
print("infix", get_env().enable_infix_notation)
t("Int(True) fresh", lambda: Int(True))
t("Int(1)", lambda: Int(1))
t("Int(True) after", lambda: (Int(True), Int(True) is Int(1)))
t("Int(1.0) after", lambda: Int(1.0))
t("Int(7.0) fresh", lambda: Int(7.0))
t("Real(True)", lambda: Real(True))
t("Real variants", lambda: (Real(2) is Real(2.0), Real(2) is Real(Fraction(2)), Real((4,2)) is Real(2), Real(0.5) is Real((1,2))))
t("BV str", lambda: (BV("#b0101") is BV(5,4), BV("0101") is BV(5, 4), SBV(-1, 4) is BV(15,4)))
# types oracle
S = Type("S"); g = Symbol("g", FunctionType(INT, [S])); cS = Symbol("cS", S); f = Symbol("f", FunctionType(INT,[INT]))
t("types f(g(c))", lambda: get_env().typeso.get_types(Equals(f(g(cS)) if False else Function(f,[Function(g,[cS])]), Int(0)), custom_only=True))
from pysmt.smtlib.script import smtlibscript_from_formula
from io import StringIO
def ser(fm):
    s = smtlibscript_from_formula(fm); b = StringIO(); s.serialize(b, daggify=False); return b.getvalue()
t("script f(g(c))", lambda: ser(Equals(Function(f,[Function(g,[cS])]), Int(0))))
# Ackermann nested
from pysmt.rewritings import Ackermannizer, propagate_toplevel, cnf, nnf
xi = Symbol("xi", INT); yi = Symbol("yi", INT)
fm = Equals(Function(f, [Plus(Function(f,[xi]), Int(1))]), Function(f,[yi]))
t("ack nested", lambda: Ackermannizer().do_ackermannization(fm))
s1, s2 = Symbol("s1", STRING), Symbol("s2", STRING)
t("prop strings", lambda: propagate_toplevel(And(Equals(s1, String("a")), Equals(s2, String("b")), Equals(s1, s2))))
ab = Symbol("ab", ArrayType(INT, BOOL))
t("nnf bool select", lambda: nnf(Not(And(Select(ab, Int(1)), Symbol("p")))))
t("cnf bool select", lambda: cnf(Not(And(Select(ab, Int(1)), Symbol("p")))))
# normalize shares nothing
e2 = Environment()
fm2 = And(Symbol("p"), LT(xi, Int(3)))
t("normalize", lambda: (e2.formula_manager.normalize(fm2), e2.formula_manager.normalize(fm2) is fm2, e2.formula_manager.normalize(Int(3)) is Int(3)))
# pow typing
xr = Symbol("xr", REAL)
t("pow int", lambda: (Pow(xi, Int(2)).get_type()))
t("equals fun", lambda: Equals(f, f))
t("rol neg", lambda: BVRol(Symbol("b4", BVType(4)), -1))
t("rol 5", lambda: BVRol(Symbol("b4", BVType(4)), 5))
t("zext neg", lambda: BVZExt(Symbol("b4", BVType(4)), -1))
t("bvult mixed", lambda: BVULT(Symbol("b4", BVType(4)), xi))
t("bvult mixed2", lambda: BVULT(xi, Symbol("b4", BVType(4))))
t("bvadd width", lambda: BVAdd(Symbol("b4", BVType(4)), Symbol("b5", BVType(5))))
t("extract", lambda: BVExtract(Symbol("b4", BVType(4)), 2, 5))
t("store wrong", lambda: Store(Symbol("aii", ArrayType(INT,INT)), Int(1), Real(1)))
t("Array wrong key", lambda: Array(INT, Int(0), {Real(1): Int(2)}))
t("Function arity", lambda: Function(f, [xi, xi]))
t("quantifier non-bool", lambda: ForAll([xi], xi))
t("quantifier non-symbol", lambda: ForAll([Plus(xi, Int(1))], Symbol("p")))
t("Times mixed", lambda: Times(xi, xr))
t("ToReal bool", lambda: ToReal(Symbol("p")))
t("StrConcat 1", lambda: StrConcat(s1))
t("BVConcat 1", lambda: BVConcat(Symbol("b4", BVType(4))))
t("bv2nat int", lambda: BVToNatural(xi))
t("select wrong idx", lambda: Select(Symbol("aii", ArrayType(INT,INT)), Real(1)))
t("ite mixed", lambda: Ite(Symbol("p"), xi, xr))
t("ite nonbool cond", lambda: Ite(xi, xi, xi))
t("equals bool", lambda: Equals(Symbol("p"), Symbol("p")))
t("iff int", lambda: Iff(xi, xi))
t("LE str", lambda: LE(s1, s2))
t("Plus str", lambda: Plus(s1, s2))
t("BVNot int", lambda: BVNot(xi))
t("BVComp widths", lambda: BVComp(Symbol("b4", BVType(4)), Symbol("b5", BVType(5))))
t("sext", lambda: BVSExt(xi, 2))
