import warnings; warnings.simplefilter("ignore")
from pysmt.shortcuts import *
from pysmt.solvers.solver import IncrementalTrackingSolver, SolverOptions
from pysmt.decorators import clear_pending_pop
from pysmt.logics import QF_BOOL
import itertools
class Opt(SolverOptions):
    def __call__(self, s): pass
class Mock(IncrementalTrackingSolver):
    OptionsClass = Opt
    LOGICS=[QF_BOOL]
    def __init__(self, env, logic, **o):
        IncrementalTrackingSolver.__init__(self, env, logic, **o)
        self.lvl = 0
    @clear_pending_pop
    def _reset_assertions(self): self.lvl = 0
    @clear_pending_pop
    def _add_assertion(self, f, named=None): return f
    @clear_pending_pop
    def _solve(self, assumptions=None): return True
    @clear_pending_pop
    def _push(self, levels=1): self.lvl += levels
    @clear_pending_pop
    def _pop(self, levels=1):
        assert self.lvl >= levels, "ILLEGAL POP"
        self.lvl -= levels
    def _exit(self): pass
a,b,c = [Symbol(n) for n in "abc"]
# reference model
def run(seq):
    s = Mock(get_env(), QF_BOOL)
    frames = [[]]
    for op in seq:
        if op[0] == "assert":
            s.add_assertion(op[1]); frames[-1].append(op[1])
        elif op[0] == "push":
            s.push(op[1]); frames.extend([] for _ in range(op[1]))
        elif op[0] == "pop":
            if op[1] > len(frames)-1: return None
            s.pop(op[1]); 
            for _ in range(op[1]): frames.pop()
        elif op[0] == "reset":
            s.reset_assertions(); frames = [[]]
        elif op[0] == "is_sat":
            s.is_sat(op[1])
        elif op[0] == "solve":
            s.solve()
        got = list(s.assertions)
        exp = [f for fr in frames for f in fr]
        if got != exp or s.lvl != len(frames)-1:
            return ("MISMATCH", seq, got, exp, s.lvl, len(frames)-1)
    return "ok"
ops = [("assert", a), ("assert", b), ("push",1), ("push",2), ("pop",1), ("pop",2), ("reset",), ("is_sat", c), ("solve",), ("push",0), ("pop",0)]
bad = 0; n=0
for L in range(1,6):
    for seq in itertools.product(ops, repeat=L):
        try:
            r = run(seq)
        except Exception as e:
            r = ("EXC", seq, repr(e))
        if r is None: continue
        n+=1
        if r != "ok":
            bad += 1
            if bad <= 6: print(r)
print("total", n, "bad", bad)
