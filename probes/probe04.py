import warnings; warnings.simplefilter("ignore")
from pysmt.shortcuts import *
from pysmt.typing import *
from pysmt.smtlib.parser import SmtLibParser
from pysmt.smtlib.script import smtlibscript_from_formula
from pysmt.parsing import parse as hrparse
from io import StringIO
def t(name, f):
    try:
        print(name, "=>", f())
    except Exception as e:
        print(name, "RAISED", type(e).__name__, str(e)[:150])
def rt(fm, dag):
    s = smtlibscript_from_formula(fm); b = StringIO(); s.serialize(b, daggify=dag)
    txt = b.getvalue()
    g = SmtLibParser().get_script(StringIO(txt)).get_last_formula()
    return (g is fm, txt.replace("\n"," ")[:200], g)
x = Symbol("x", INT); r = Symbol("r", REAL); p = Symbol("p"); bv = Symbol("bv", BVType(8))
for dag in (False, True):
    t("rt neg int", lambda: rt(LT(x, Int(-3)), dag))
    t("rt rat", lambda: rt(LT(r, Real((-1,3))), dag))
    t("rt times -1", lambda: rt(Equals(Times(Int(-1), x), Int(2)), dag))
    t("rt toreal", lambda: rt(LT(ToReal(x), r), dag))
    t("rt weird name", lambda: rt(And(Symbol("a b"), Symbol("|x|")), dag))
    t("rt bv", lambda: rt(Equals(BVRor(BVExtract(bv, 2, 5).BVZExt(4), 3), BV(3, 8)), dag))
    t("rt arrayval", lambda: rt(Equals(Array(INT, Int(0), {Int(1): Int(2)}), Symbol("aa", ArrayType(INT,INT))), dag))
    t("rt quant", lambda: rt(ForAll([x], Exists([r], LT(ToReal(x), r))), dag))
    t("rt str", lambda: rt(Equals(StrConcat(Symbol("s", STRING), String('a"b')), String("")), dag))
    t("rt intdiv", lambda: rt(Equals(Div(x, Int(3)), Int(1)), dag))
    t("rt let clash", lambda: rt(And(Symbol(".def_0"), Or(p, Symbol(".def_1"))), dag))
    t("rt ite", lambda: rt(Equals(Ite(p, x, Int(1)), Int(0)), dag))
    t("rt Real 1 in int ctx", lambda: rt(Equals(r, Real(1)), dag))
    t("rt plus real const", lambda: rt(Equals(Plus(r, Real(1)), Real(2)), dag))
def hr(fm):
    s = fm.serialize()
    g = hrparse(s)
    return (g is fm, s, g.serialize())
t("hr1", lambda: hr(And(p, LT(x, Int(-3)), Or(p, Not(p)))))
t("hr bv", lambda: hr(Equals(BVRor(BVExtract(bv, 2, 5).BVZExt(4), 3), BV(3, 8))))
t("hr ite", lambda: hr(Equals(Ite(p, x, Int(1)), Int(0))))
t("hr quant", lambda: hr(ForAll([x], Exists([r], LT(ToReal(x), r)))))
t("hr neg", lambda: hr(Equals(BVNeg(bv), bv)))
t("hr times-1", lambda: hr(Equals(Times(Int(-1), x), Int(2))))
t("hr minus neg", lambda: hr(Equals(Minus(x, Int(-1)), Int(2))))
t("hr str", lambda: hr(Equals(StrConcat(Symbol("s", STRING), String('ab')), String(""))))
t("hr arr", lambda: hr(Equals(Array(INT, Int(0), {Int(1): Int(2)}), Symbol("aa", ArrayType(INT,INT)))))
t("hr fun", lambda: hr(Equals(Function(Symbol("ff", FunctionType(INT,[INT, REAL])), [x, r]), Int(0))))
t("hr bvcomp", lambda: hr(Equals(BVComp(bv, bv), BV(1,1))))
t("hr xor", lambda: hr(Equals(BVXor(bv, bv), bv)))
t("hr implies chain", lambda: hr(Implies(Implies(p, p), Iff(p, p))))
t("hr nary and", lambda: hr(And(p, Symbol("q"), Symbol("w"))))
