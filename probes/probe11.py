import warnings, itertools; warnings.simplefilter("ignore")
from pysmt.shortcuts import *
from pysmt.typing import *
from pysmt.solvers.solver import IncrementalTrackingSolver, SolverOptions
from pysmt.solvers.eager import EagerModel
from pysmt.decorators import clear_pending_pop
from pysmt.logics import QF_LIA, QF_BV, QF_AUFBVLIRA
from pysmt.optimization.optimizer import SUAOptimizerMixin, IncrementalOptimizerMixin
from pysmt.optimization.goal import *
class Opt(SolverOptions):
    def __call__(self, s): pass
class Brute(IncrementalTrackingSolver):
    OptionsClass = Opt
    LOGICS=[QF_AUFBVLIRA]
    INT_RANGE = range(-4, 5)
    def __init__(self, environment, logic, **o):
        IncrementalTrackingSolver.__init__(self, environment, logic, **o)
        self.model = None; self.lvl = 0
    @clear_pending_pop
    def _reset_assertions(self): self.lvl = 0
    @clear_pending_pop
    def _add_assertion(self, f, named=None): return f
    @clear_pending_pop
    def _push(self, levels=1): self.lvl += levels
    @clear_pending_pop
    def _pop(self, levels=1):
        assert self.lvl >= levels; self.lvl -= levels
    def _exit(self): pass
    def _dom(self, s):
        t = s.symbol_type()
        if t.is_bool_type(): return [TRUE(), FALSE()]
        if t.is_int_type(): return [Int(i) for i in self.INT_RANGE]
        if t.is_bv_type(): return [BV(i, t.width) for i in range(2**t.width)]
        raise NotImplementedError
    @clear_pending_pop
    def _solve(self, assumptions=None):
        fs = list(self._assertion_stack) + list(assumptions or [])
        f = And(fs)
        vs = sorted(f.get_free_variables(), key=lambda s: s.symbol_name())
        self.model = None
        for vals in itertools.product(*[self._dom(v) for v in vs]):
            a = dict(zip(vs, vals))
            if f.substitute(a).simplify().is_true():
                self.model = EagerModel(a, self.environment); return True
        return False
    def get_model(self): return self.model
    def get_value(self, f): return self.model.get_value(f)
class BruteSUA(Brute, SUAOptimizerMixin): pass
class BruteInc(Brute, IncrementalOptimizerMixin): pass
x, y = Symbol("x", INT), Symbol("y", INT); b = Symbol("b", BVType(3))
for cls in (BruteSUA, BruteInc):
    for strat in ("linear", "binary"):
        s = cls(get_env(), QF_AUFBVLIRA)
        s.add_assertion(And(GE(x, Int(-3)), LE(x, Int(3)), GE(y, Int(-2)), LE(y, Int(4)), LE(Plus(x, y), Int(3))))
        s.push()
        s.add_assertion(GE(Plus(x,y), Int(0)))
        r = s.optimize(MaximizationGoal(Minus(x, y)), strategy=strat)
        print(cls.__name__, strat, "max x-y", r[1], "assertions", len(s.assertions), "bt", len(s._backtrack_points), "lvl", s.lvl)
        r = s.lexicographic_optimize([MinimizationGoal(x), MaximizationGoal(y)], strategy=strat)
        print("   lex", r[1], "assertions", len(s.assertions), "bt", len(s._backtrack_points), "lvl", s.lvl)
        r = list(s.pareto_optimize([MinimizationGoal(x), MinimizationGoal(y)]))
        print("   pareto", [c for _, c in r], "bt", len(s._backtrack_points), "lvl", s.lvl)
        r = s.optimize(MinimizationGoal(b, True), strategy=strat) if False else None
        s2 = cls(get_env(), QF_AUFBVLIRA)
        s2.add_assertion(Not(Equals(b, BV(4,3))))
        for sg in (False, True):
            r1 = s2.optimize(MinimizationGoal(b, sg), strategy=strat); r2 = s2.optimize(MaximizationGoal(b, sg), strategy=strat)
            print("   bv signed", sg, "min", r1[1], "max", r2[1], "bt", len(s2._backtrack_points))
        g = MaxSMTGoal(real_weights=False); g.add_soft_clause(GT(x, Int(2)), Int(3)); g.add_soft_clause(LT(x, Int(0)), Int(2)); g.add_soft_clause(Equals(y, x), Int(2))
        r = s.optimize(g, strategy=strat); print("   maxsmt", r[1])
