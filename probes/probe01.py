import warnings; warnings.simplefilter("ignore")
from pysmt.shortcuts import *
from pysmt.typing import *
def t(name, f):
    try:
        print(name, "=>", f())
    except Exception as e:
        print(name, "RAISED", type(e).__name__, str(e)[:100])

t("eq arrays", lambda: Equals(Array(INT, Int(0)), Array(INT, Int(1))).simplify())
t("charat -2", lambda: StrCharAt(String("abc"), Int(-2)).simplify())
t("indexof neg", lambda: StrIndexOf(String("abc"), String("b"), Int(-2)).simplify())
t("substr neg", lambda: StrSubstr(String("abc"), Int(-2), Int(5)).simplify())
t("substr neglen", lambda: StrSubstr(String("abc"), Int(1), Int(-1)).simplify())
t("str2int ' 12'", lambda: StrToInt(String(" 12")).simplify())
t("str2int '-3'", lambda: StrToInt(String("-3")).simplify())
t("str2int '1_0'", lambda: StrToInt(String("1_0")).simplify())
t("int div big", lambda: Div(Int(10**20+1), Int(1)).simplify())
t("int div big2", lambda: Div(Int(10**20+1), Int(3)).simplify())
t("int div neg", lambda: (Div(Int(-7), Int(2)).simplify(), Div(Int(7), Int(-2)).simplify(), Div(Int(-7), Int(-2)).simplify()))
x = Symbol("x", BVType(8)); p = Symbol("p")
t("logic forall bv unused", lambda: get_logic(ForAll([x], p)) if False else __import__('pysmt.oracles',fromlist=['get_logic']).get_logic(ForAll([x], p)))
i = Symbol("i", INT); j = Symbol("j", INT)
from pysmt.oracles import get_logic
t("logic int2str", lambda: get_logic(Equals(IntToStr(i), IntToStr(j))))
t("theory int2str", lambda: get_env().theoryo.get_theory(Equals(IntToStr(i), IntToStr(j))))
c = Symbol("c"); q=Symbol("q")
from pysmt.rewritings import nnf
t("nnf not ite", lambda: nnf(Not(Ite(c, p, q))))
# let parallel
from pysmt.smtlib.parser import SmtLibParser
from io import StringIO
def parse(s):
    return SmtLibParser().get_script(StringIO(s))
t("parallel let", lambda: parse("(declare-fun x () Int)(declare-fun y () Int)(assert (let ((x y) (y x)) (< x y)))").get_last_formula())
t("define vs forall", lambda: parse("(define-fun k () Int 5)(assert (forall ((k Int)) (> k 0)))").get_last_formula())
t("undeclared str", lambda: parse("(declare-fun s () String)(assert (= s y))").get_last_formula())
t("capture", lambda: parse("(declare-fun x () Int)(define-fun g ((a Int)) Bool (> a x))(assert (forall ((x Int)) (g x)))").get_last_formula())
t("intdiv print", lambda: Div(i, j).to_smtlib(False))
